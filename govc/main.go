package main

import (
	"runtime"
	"encoding/json"
	"flag"
	"fmt"
	"os"
	"path/filepath"
	"regexp"
	"runtime/debug"
	"sort"
	"strings"
	"time"

	"golang.org/x/tools/go/ssa"
)

var (
	flagRepo    = flag.String("repo", envOr("VERIF_REPO", "/repo"), "repository root")
	flagProp    = flag.String("prop", "", "property id (Cxx)")
	flagTier    = flag.String("tier", envOr("VERIF_TIER", "quick"), "quick|thorough")
	flagOut     = flag.String("evidence", "", "evidence file to write")
	flagWork    = flag.String("work", "", "scratch directory for SMT files")
	flagReplays = flag.String("replays", "", "directory for replay files")
	flagFunc    = flag.String("func", "", "only verify functions whose key contains this")
	flagVerbose = flag.Bool("v", false, "verbose")
	flagKnown   = flag.String("known", "", "known findings file")
	flagDumpSSA = flag.String("dumpssa", "", "dump SSA of function key containing this and exit")
	flagTimeout = flag.Int("timeout", 0, "per-obligation solver timeout (s)")
	flagNoReplay = flag.Bool("noreplay", false, "do not run replays")
)

func envOr(k, d string) string {
	if v := os.Getenv(k); v != "" {
		return v
	}
	return d
}

var propLine = regexp.MustCompile(`(?m)^//@\s+props\s+(.*)$`)
var loadLine = regexp.MustCompile(`(?m)^//@\s*load\s+(.*)$`)

// findPackages: directories whose contract file mentions the property, plus their //@ load lines.
func findPackages(repo, prop string) ([]string, error) {
	var files []string
	filepath.Walk(repo, func(p string, info os.FileInfo, err error) error {
		if err != nil {
			return nil
		}
		if info.IsDir() && (info.Name() == ".git" || info.Name() == "node_modules") {
			return filepath.SkipDir
		}
		if !info.IsDir() && info.Name() == contractFileName {
			files = append(files, p)
		}
		return nil
	})
	dirs := map[string]bool{}
	texts := map[string]string{}
	for _, f := range files {
		b, _ := os.ReadFile(f)
		texts[filepath.Dir(f)] = string(b)
	}
	// contract files for packages outside the repository (dependencies brought under contract): extspec/<import path>/
	ext := extSpecDir()
	filepath.Walk(ext, func(p string, info os.FileInfo, err error) error {
		if err == nil && !info.IsDir() && info.Name() == contractFileName {
			b, _ := os.ReadFile(p)
			texts[filepath.Dir(p)] = string(b)
		}
		return nil
	})
	var add func(dir string)
	add = func(dir string) {
		if dirs[dir] {
			return
		}
		dirs[dir] = true
		for _, m := range loadLine.FindAllStringSubmatch(texts[dir], -1) {
			for _, rel := range strings.Fields(m[1]) {
				if strings.HasPrefix(rel, "./") || rel == "." {
					add(filepath.Join(repo, rel))
				} else {
					add(filepath.Join(ext, rel))
				}
			}
		}
	}
	for dir, t := range texts {
		for _, m := range propLine.FindAllStringSubmatch(t, -1) {
			for _, p := range strings.Fields(m[1]) {
				if p == prop {
					add(dir)
				}
			}
		}
	}
	var out []string
	for d := range dirs {
		if ext != "" && strings.HasPrefix(d, ext+string(filepath.Separator)) {
			ip, _ := filepath.Rel(ext, d)
			out = append(out, filepath.ToSlash(ip)) // import path of a dependency
			continue
		}
		rel, err := filepath.Rel(repo, d)
		if err != nil {
			return nil, err
		}
		out = append(out, "./"+rel)
	}
	sort.Strings(out)
	return out, nil
}

// extSpecDir: /verif/extspec (next to bin/), holding contract files for dependency packages.
func extSpecDir() string {
	if d := os.Getenv("GOVC_EXTSPEC"); d != "" {
		return d
	}
	exe, err := os.Executable()
	if err != nil {
		return ""
	}
	return filepath.Join(filepath.Dir(filepath.Dir(exe)), "extspec")
}

type FuncReport struct {
	Key         string   `json:"function"`
	Obligations int      `json:"obligations"`
	Discharged  int      `json:"discharged"`
	Seconds     float64  `json:"solver_s"`
	Vacuity     string   `json:"vacuity"`
	Failed      []string `json:"failed,omitempty"`
}

type KnownFinding struct {
	Property   string `json:"property"`
	Obligation string `json:"obligation"`
	Status     string `json:"status"` // known | fixed
	What       string `json:"what"`
	Commit     string `json:"commit,omitempty"`
}

func main() {
	flag.Parse()
	start := time.Now()
	// offline toolchain: the newer Go release pre-installed beside the default one
	if _, err := os.Stat("/opt/veriftools/go1.26.8/bin/go"); err == nil {
		os.Setenv("PATH", "/opt/veriftools/go1.26.8/bin:"+os.Getenv("PATH"))
	}
	for k, v := range map[string]string{"GOFLAGS": "-mod=mod", "GOPROXY": "off", "GOSUMDB": "off", "GOTOOLCHAIN": "local"} {
		os.Setenv(k, v)
	}
	if *flagProp == "" && *flagDumpSSA == "" {
		fmt.Fprintln(os.Stderr, "usage: govc -prop Cxx [-tier quick|thorough]")
		os.Exit(2)
	}
	code := run(start)
	os.Exit(code)
}

func run(start time.Time) (code int) {
	prop := *flagProp
	repo := *flagRepo
	work := *flagWork
	if work == "" {
		work = filepath.Join(os.TempDir(), fmt.Sprintf("govc-%s-%d", prop, os.Getpid()))
		defer os.RemoveAll(work)
	}
	os.MkdirAll(work, 0o755)
	var patterns []string
	if *flagDumpSSA != "" && prop == "" {
		patterns = flag.Args()
	} else {
		var err error
		patterns, err = findPackages(repo, prop)
		if err != nil || len(patterns) == 0 {
			fmt.Printf("ERROR property=%s no contract file under %s mentions this property\n", prop, repo)
			return 2
		}
	}
	t0 := time.Now()
	defer func() {
		for _, d := range extScratchDirs {
			os.RemoveAll(d)
		}
	}()
	P, err := loadProgram(repo, patterns)
	if err != nil {
		fmt.Printf("ERROR property=%s cannot load: %v\n", prop, err)
		return 2
	}
	P.LoadSeconds = time.Since(t0).Seconds()
	if *flagDumpSSA != "" {
		for k, fn := range P.FuncByKey {
			if strings.Contains(k, *flagDumpSSA) && fn.Blocks != nil {
				fn.WriteTo(os.Stdout)
				for _, af := range fn.AnonFuncs {
					af.WriteTo(os.Stdout)
				}
			}
		}
		return 0
	}
	x := NewExec(P, *flagTier)
	// per-obligation solver limit; only an obligation that fails to discharge ever uses it up
	timeout := 60
	if *flagTier == "thorough" {
		timeout = 300
	}
	if *flagTimeout > 0 {
		timeout = *flagTimeout
	}
	var reports []*FuncReport
	var targets []*FuncContract
	for _, fc := range P.ContractList {
		has := false
		for _, p := range fc.Props {
			if p == prop {
				has = true
			}
		}
		if !has || fc.Pure || fc.Inline || fc.Trusted != "" {
			continue
		}
		if *flagFunc != "" && !strings.Contains(fc.Key, *flagFunc) {
			continue
		}
		targets = append(targets, fc)
	}
	if len(targets) == 0 {
		fmt.Printf("ERROR property=%s no function under contract for this property\n", prop)
		return 2
	}
	var allObls []*Obligation
	var setupErrs []string
	for _, fc := range targets {
		fn := P.FuncByKey[strings.TrimSuffix(fc.Key, implSuffix)]
		if fn == nil || fn.Blocks == nil {
			setupErrs = append(setupErrs, fmt.Sprintf("contract at %s names %s, which does not exist (or has no body) in the current tree", P.posStr(fc.Pos), fc.Key))
			continue
		}
		rep := &FuncReport{Key: shortKey(fc.Key)}
		reports = append(reports, rep)
		nBefore := len(x.obls)
		func() {
			defer func() {
				if r := recover(); r != nil {
					if ce, ok := r.(*ContractError); ok {
						setupErrs = append(setupErrs, ce.msg)
						return
					}
					setupErrs = append(setupErrs, fmt.Sprintf("internal error verifying %s: %v\n%s", fc.Key, r, trunc(string(debug.Stack()), 3000)))
				}
			}()
			x.verifyFunction(fn, fc, prop, rep, work, timeout)
			// a call-site clause that was applied to no call says nothing: reported (not an alarm: the call may be gone)
			for _, cl := range append(append([]*Clause{}, fc.CallRequires...), fc.CallAssumes...) {
				if cl.Matched == 0 {
					msg := fmt.Sprintf("call-site clause of %s matched no call: %s %s", shortKey(fc.Key), cl.CbName, trunc(cl.Text, 60))
					x.note(msg)
					fmt.Printf("NOTE property=%s %s\n", prop, msg)
				}
			}
		}()
		allObls = append(allObls, x.obls[nBefore:]...)
	}
	if len(setupErrs) > 0 {
		for _, e := range setupErrs {
			fmt.Printf("ERROR property=%s %s\n", prop, e)
		}
		return 2
	}
	// quick tier: skip heavy obligations (not counted)
	var active []*Obligation
	skipped := 0
	for _, o := range allObls {
		if *flagTier == "quick" && o.Frame != nil && o.Frame.contract != nil && quickSkipped(o) {
			o.Status = "skipped"
			skipped++
			continue
		}
		active = append(active, o)
	}
	par := runtime.NumCPU() * 5 / 16 // each obligation races up to ten solver processes
	if par < 2 {
		par = 2
	}
	x.dischargeAll(active, work, timeout, par)

	if d := os.Getenv("GOVC_DUMP"); d != "" {
		for _, o := range active {
			if strings.Contains(o.Name, d) {
				fmt.Printf("=== %s [%s]\nGUARD: %s\nCOND: %s\n", o.Name, o.Status, x.c.ShowFull(o.Guard), x.c.ShowFull(o.Cond))
			}
		}
	}
	known := loadKnown(*flagKnown)
	ev := x.report(prop, active, reports, known, start, work, timeout, skipped)
	if *flagOut != "" {
		os.MkdirAll(filepath.Dir(*flagOut), 0o755)
		b, _ := json.MarshalIndent(ev.json, "", " ")
		os.WriteFile(*flagOut, append(b, '\n'), 0o644)
	}
	return ev.exit
}

func quickSkipped(o *Obligation) bool {
	fc := o.Frame.contract
	if len(fc.QuickSkip) == 0 {
		return false
	}
	// label inside [...]
	i := strings.LastIndex(o.Name, "[")
	if i < 0 {
		return false
	}
	lab := strings.TrimSuffix(o.Name[i+1:], "]")
	if j := strings.Index(lab, "]"); j >= 0 {
		lab = lab[:j]
	}
	if j := strings.Index(lab, "@"); j >= 0 {
		lab = lab[:j]
	}
	if fc.QuickSkip[lab] {
		return true
	}
	// loopN.label
	if k := strings.Index(lab, "."); k >= 0 && fc.QuickSkip[lab[k+1:]] {
		return true
	}
	return false
}

func loadKnown(path string) []KnownFinding {
	if path == "" {
		return nil
	}
	b, err := os.ReadFile(path)
	if err != nil {
		return nil
	}
	var ks []KnownFinding
	json.Unmarshal(b, &ks)
	return ks
}

// verifyFunction generates all obligations of one function under contract.
func (x *Exec) verifyFunction(fn *ssa.Function, fc *FuncContract, prop string, rep *FuncReport, work string, timeout int) {
	c := x.c
	// each function is verified from its own assumptions only
	x.assumps = nil
	x.recDone = map[*Term]bool{}
	x.ptrTagDone = nil
	x.recDepth = map[string]int{}
	x.absDivs = nil
	fr := x.newFrame(fn, nil)
	fr.top = true
	fr.props = fc.Props
	fr.contract = fc // (an "impl" view is not the contract callers see)
	if fr.li != nil {
		for _, l := range fr.li.Loops {
			if *flagVerbose {
				fmt.Printf("  loop in %s: ordinal=%d header=block %d at %s (%d blocks)\n", shortKey(fc.Key), l.Ordinal, l.Header.Index, x.P.posStr(l.MinPos), len(l.Blocks))
			}
			if l.Ordinal == 0 {
				cfail("loop at %s in %s could not be matched to a source loop statement", x.P.posStr(l.MinPos), fc.Key)
			}
		}
		for n := range fc.LoopInv {
			found := false
			for _, l := range fr.li.Loops {
				if l.Ordinal == n {
					found = true
				}
			}
			if !found {
				// the body was restructured: the clauses for that loop have nothing to attach to; the
				// remaining obligations (ensures, frame, safety) decide whether the function still meets its contract
				x.note(fmt.Sprintf("contract of %s has clauses for loop %d, which does not exist in the current body (ignored)", shortKey(fc.Key), n))
			}
		}
	}
	x.funcsUnderContract[fc.Key] = true
	st := &State{regs: map[any]*Term{}, mem: map[string]*Term{}, ghost: map[string]*Term{}}
	st.ep = nil
	alloc0 := c.Fresh("alloc0_"+fn.Name(), SInt)
	st.alloc = alloc0
	x.entryAlloc = alloc0
	g := c.True()
	nA0 := len(x.assumps)
	x.assumeRaw(c.IntCmp(">", alloc0, c.Int(0)))
	for _, p := range fn.Params {
		t := x.freshOf("p_"+p.Name(), p.Type())
		st.regs[p] = t
		fr.params = append(fr.params, t)
		x.assumeWF(g, t, p.Type(), st)
	}
	for i, fv := range fn.FreeVars {
		_ = i
		t := x.freshOf("fv_"+fv.Name(), fv.Type())
		fr.bindings = append(fr.bindings, t)
	}
	// ghost variables
	fr.declareGhosts()
	x.clockOf(st)
	fr.entry = st.clone()
	for _, gcl := range fc.Ghosts {
		want := x.ghostSort(fr.ghostTypes[gcl.Ghost])
		if gcl.Text == "" {
			st.ghost[gcl.Ghost] = x.c.Fresh("ghost_"+gcl.Ghost, want)
			continue
		}
		v := fr.evalClauseAt(gcl, st, nil, nil)
		if v.sort != want {
			cfail("%s: ghost %s initial value has sort %s, want %s", x.P.posStr(gcl.Pos), gcl.Ghost, v.sort, want)
		}
		st.ghost[gcl.Ghost] = v
	}
	fr.entry = st.clone()
	for _, r := range fc.Requires {
		x.assume(g, fr.evalClauseAt(r, st, nil, nil))
	}
	fr.evalOlds(st)
	nAEntry := len(x.assumps)
	results, out, og := fr.run(st, g)
	// vacuity: precondition satisfiable, some return reachable
	rep.Vacuity = x.vacuityCheck(fc, nA0, nAEntry, og, work, timeout)
	// every return statement should be reachable under the assumptions made on the way to it (a contradiction between
	// an assumed callee contract and an engine assumption kills a path silently otherwise); reported, not an error:
	// a return may be dead code
	if len(fr.rets) > 1 && len(fr.rets) <= 24 {
		type res struct {
			i  int
			st string
		}
		ch := make(chan res, len(fr.rets))
		sem := make(chan struct{}, 4)
		for i, r := range fr.rets {
			i, r := i, r
			go func() {
				sem <- struct{}{}
				defer func() { <-sem }()
				var qf []*Term
				for _, a := range x.assumps {
					if !a.hasQ {
						qf = append(qf, a)
					}
				}
				rr := raceSolvers(x.c.Script(append(qf, r.guard), ScriptOpts{}), work, fmt.Sprintf("reach_%s_%d", shortKey(fc.Key), i+1), 10)
				ch <- res{i, rr.status}
			}()
		}
		var dead []string
		for range fr.rets {
			r := <-ch
			if r.st == "unsat" {
				dead = append(dead, fmt.Sprintf("return%d (%s)", r.i+1, x.P.posStr(fr.rets[r.i].pos)))
			}
		}
		if len(dead) > 0 {
			sort.Strings(dead)
			msg := fmt.Sprintf("unreachable under the assumptions of %s: %s", shortKey(fc.Key), strings.Join(dead, ", "))
			x.note(msg)
			fmt.Printf("NOTE property=%s %s\n", prop, msg)
		}
	}
	if og.isFalse() {
		return
	}
	extra := map[string]*Term{}
	switch len(results) {
	case 0:
	case 1:
		bindResults(extra, fn.Signature, results[0])
	default:
		bindResults(extra, fn.Signature, c.mk("tuple", "Tuple", 0, "", results, nil, nil))
	}
	// one obligation per ensures clause and return site (smaller queries, precise blame)
	sort.SliceStable(fr.rets, func(i, j int) bool { return fr.rets[i].pos < fr.rets[j].pos })
	for ri, r := range fr.rets {
		rextra := map[string]*Term{}
		switch len(r.results) {
		case 0:
		case 1:
			bindResults(rextra, fn.Signature, r.results[0])
		default:
			bindResults(rextra, fn.Signature, c.mk("tuple", "Tuple", 0, "", r.results, nil, nil))
		}
		for _, lm := range fc.ExitLemmas {
			fr.applyLemma(lm, r.st, r.guard, nil, rextra)
		}
		for i, e := range fc.Ensures {
			t := fr.evalClauseAt(e, r.st, nil, rextra)
			lab := e.Label
			if lab == "" {
				lab = fmt.Sprintf("%d", i+1)
			}
			if len(fr.rets) > 1 {
				lab += fmt.Sprintf("@return%d", ri+1)
			}
			if len(fc.Cases) > 0 && !t.isTrue() {
				var cs []*Term
				for ci, cc := range fc.Cases {
					ct := fr.evalClauseAt(cc, r.st, nil, rextra)
					cs = append(cs, ct)
					fr.oblige("ensures", fmt.Sprintf("%s/case%d", lab, ci+1), e.Pos, c.And(r.guard, ct), t, e.Text+"   [case: "+cc.Text+"]")
				}
				fr.oblige("ensures", lab+"/otherwise", e.Pos, c.And(r.guard, c.Not(c.Or(cs...))), t, e.Text+"   [none of the cases]")
				continue
			}
			fr.oblige("ensures", lab, e.Pos, r.guard, t, e.Text)
		}
	}
	_ = extra
	if fc.HasAssigns && fc.AssumedFrame != "" {
		x.note("assumed frame (not checked against the body): " + shortKey(fc.Key) + " — " + fc.AssumedFrame)
	} else if fc.HasAssigns {
		var ts []target
		for _, a := range fc.Assigns {
			ts = append(ts, fr.evalTargets(a, fr.entry, nil, nil)...)
		}
		fr.checkFrame("assigns", fc.Pos, fr.entry, out, ts, og, "assigns clause")
	}
}

func (x *Exec) vacuityCheck(fc *FuncContract, nA0, nAEntry int, og *Term, work string, timeout int) string {
	c := x.c
	if og.isFalse() {
		return "no return reachable"
	}
	var asserts []*Term
	asserts = append(asserts, x.assumps...)
	asserts = append(asserts, og)
	script := c.Script(asserts, ScriptOpts{})
	t := 20
	r := raceSolvers(script, work, "vacuity_"+shortKey(fc.Key), t)
	switch r.status {
	case "sat":
		return "precondition satisfiable and a return is reachable (sat, " + r.solver + ")"
	case "unsat":
		return "VACUOUS: assumptions contradictory or no return reachable"
	}
	// second attempt without the quantified assumptions: weaker evidence (the ground part is consistent)
	var qf []*Term
	for _, a := range x.assumps {
		if !a.hasQ {
			qf = append(qf, a)
		}
	}
	if !og.hasQ && len(qf) < len(x.assumps) {
		r2 := raceSolvers(c.Script(append(qf, og), ScriptOpts{}), work, "vacuity_noq_"+shortKey(fc.Key), t)
		switch r2.status {
		case "sat":
			return "quantifier-free part of the assumptions satisfiable and a return reachable (sat, " + r2.solver + "); with the quantified assumptions: undetermined in 20 s"
		case "unsat":
			return "VACUOUS: assumptions contradictory or no return reachable"
		}
	}
	return "undetermined (solver gave no answer in 20 s)"
}

package main

// smt.go: hash-consed SMT-LIB2 term DAG with a light simplifier and printer.

import (
	"fmt"
	"sort"
	"strconv"
	"strings"
)

// Sort names are the SMT-LIB text of the sort.
const (
	SBool  = "Bool"
	SInt   = "Int"
	SRef   = "Ref"
	SSlice = "Slice"
	SStr   = "Str"
	SIface = "Iface"
)

func SBV(w int) string { return fmt.Sprintf("(_ BitVec %d)", w) }
func SArr(i, e string) string {
	return "(Array " + i + " " + e + ")"
}

func bvWidth(s string) int {
	if strings.HasPrefix(s, "(_ BitVec ") {
		n, _ := strconv.Atoi(strings.TrimSuffix(strings.TrimPrefix(s, "(_ BitVec "), ")"))
		return n
	}
	return 0
}

// arrParts splits "(Array I E)" into I and E.
func arrParts(s string) (string, string, bool) {
	if !strings.HasPrefix(s, "(Array ") {
		return "", "", false
	}
	body := s[len("(Array ") : len(s)-1]
	// index sort is first balanced token
	depth := 0
	for i := 0; i < len(body); i++ {
		switch body[i] {
		case '(':
			depth++
		case ')':
			depth--
		case ' ':
			if depth == 0 {
				return body[:i], body[i+1:], true
			}
		}
	}
	return "", "", false
}

type Term struct {
	id   int
	op   string // SMT function symbol, or one of: "bvlit","intlit","true","false","var","bvar","forall","exists","tuple"
	args []*Term
	sort string
	val  uint64 // for bvlit / intlit (intlit as int64 in val)
	name string // for var/bvar/app symbol when op=="app"
	open bool   // contains a free bound variable
	hasQ bool   // contains a quantifier
	bvs  []*Term // bound variables (forall/exists)
	pats []*Term // optional patterns (forall)
}

type Ctx struct {
	tab    map[string]*Term
	nextID int
	// declarations
	decls     []string          // in order
	declSet   map[string]bool   // symbol -> declared
	declOf    map[string]string // symbol -> declaration text
	fresh     map[string]int
	datatypes []string // datatype declarations in dependency order
	dtSet     map[string]bool
	axioms    []*Term // global axioms always included
	symAxioms map[string][]*Term // included iff the symbol is used
	distinct  map[string][]string // group -> symbols that are pairwise distinct
	symSort   map[string]string
}

func NewCtx() *Ctx {
	c := &Ctx{tab: map[string]*Term{}, declSet: map[string]bool{}, declOf: map[string]string{}, fresh: map[string]int{}, dtSet: map[string]bool{}, symAxioms: map[string][]*Term{}, distinct: map[string][]string{}, symSort: map[string]string{}}
	return c
}

func (c *Ctx) mk(op, srt string, val uint64, name string, args []*Term, bvs []*Term, pats []*Term) *Term {
	var sb strings.Builder
	sb.WriteString(op)
	sb.WriteByte('|')
	sb.WriteString(srt)
	sb.WriteByte('|')
	sb.WriteString(strconv.FormatUint(val, 10))
	sb.WriteByte('|')
	sb.WriteString(name)
	for _, a := range args {
		sb.WriteByte(',')
		sb.WriteString(strconv.Itoa(a.id))
	}
	if len(bvs) > 0 {
		sb.WriteByte(';')
		for _, a := range bvs {
			sb.WriteByte(',')
			sb.WriteString(strconv.Itoa(a.id))
		}
		sb.WriteByte(';')
		for _, a := range pats {
			sb.WriteByte(',')
			sb.WriteString(strconv.Itoa(a.id))
		}
	}
	k := sb.String()
	if t, ok := c.tab[k]; ok {
		return t
	}
	c.nextID++
	t := &Term{id: c.nextID, op: op, args: args, sort: srt, val: val, name: name, bvs: bvs, pats: pats}
	if op == "bvar" {
		t.open = true
	} else if len(bvs) > 0 {
		// open iff body has free bvars other than bvs
		t.open = len(freeBVars(t)) > 0
	} else {
		for _, a := range args {
			if a.open {
				t.open = true
				break
			}
		}
	}
	if op == "forall" || op == "exists" {
		t.hasQ = true
	} else {
		for _, a := range args {
			if a.hasQ {
				t.hasQ = true
				break
			}
		}
	}
	c.tab[k] = t
	return t
}

func freeBVars(t *Term) map[*Term]bool {
	res := map[*Term]bool{}
	seen := map[*Term]bool{}
	var walk func(t *Term, bound map[*Term]bool)
	walk = func(t *Term, bound map[*Term]bool) {
		if !t.open && t.op != "forall" && t.op != "exists" {
			return
		}
		if t.op == "bvar" {
			if !bound[t] {
				res[t] = true
			}
			return
		}
		if len(t.bvs) > 0 {
			nb := map[*Term]bool{}
			for k := range bound {
				nb[k] = true
			}
			for _, b := range t.bvs {
				nb[b] = true
			}
			for _, a := range t.args {
				walk(a, nb)
			}
			for _, a := range t.pats {
				walk(a, nb)
			}
			return
		}
		if len(bound) == 0 {
			if seen[t] {
				return
			}
			seen[t] = true
		}
		for _, a := range t.args {
			walk(a, bound)
		}
	}
	walk(t, map[*Term]bool{})
	return res
}

// ---------- leaf constructors ----------

func (c *Ctx) True() *Term  { return c.mk("true", SBool, 0, "", nil, nil, nil) }
func (c *Ctx) False() *Term { return c.mk("false", SBool, 0, "", nil, nil, nil) }
func (c *Ctx) Bool(b bool) *Term {
	if b {
		return c.True()
	}
	return c.False()
}
func (c *Ctx) BV(v uint64, w int) *Term {
	if w < 64 {
		v &= (uint64(1) << uint(w)) - 1
	}
	return c.mk("bvlit", SBV(w), v, "", nil, nil, nil)
}
func (c *Ctx) Int(v int64) *Term { return c.mk("intlit", SInt, uint64(v), "", nil, nil, nil) }

func (t *Term) isTrue() bool  { return t.op == "true" }
func (t *Term) isFalse() bool { return t.op == "false" }
func (t *Term) isBVLit() bool { return t.op == "bvlit" }
func (t *Term) isLit() bool {
	return t.op == "bvlit" || t.op == "intlit" || t.op == "true" || t.op == "false"
}

// Declare a constant (0-ary function) or function symbol.
func (c *Ctx) Declare(name string, argSorts []string, ret string) {
	if c.declSet[name] {
		return
	}
	c.declSet[name] = true
	d := fmt.Sprintf("(declare-fun %s (%s) %s)", name, strings.Join(argSorts, " "), ret)
	c.declOf[name] = d
	c.decls = append(c.decls, name)
}

func (c *Ctx) Var(name, srt string) *Term {
	c.Declare(name, nil, srt)
	return c.mk("var", srt, 0, name, nil, nil, nil)
}

func sanitize(s string) string {
	var sb strings.Builder
	for _, r := range s {
		if r >= 'a' && r <= 'z' || r >= 'A' && r <= 'Z' || r >= '0' && r <= '9' || r == '_' || r == '.' {
			sb.WriteRune(r)
		} else {
			sb.WriteByte('_')
		}
	}
	return sb.String()
}

func (c *Ctx) Fresh(prefix, srt string) *Term {
	prefix = sanitize(prefix)
	c.fresh[prefix]++
	return c.Var(fmt.Sprintf("%s!%d", prefix, c.fresh[prefix]), srt)
}

func (c *Ctx) BVar(name, srt string) *Term {
	c.fresh["bv$"+name]++
	return c.mk("bvar", srt, 0, fmt.Sprintf("%s?%d", sanitize(name), c.fresh["bv$"+name]), nil, nil, nil)
}

// App applies a declared (uninterpreted or defined) function symbol.
func (c *Ctx) App(fn string, ret string, args ...*Term) *Term {
	return c.mk("app", ret, 0, fn, args, nil, nil)
}

// UF declares (if needed) and applies an uninterpreted function.
func (c *Ctx) UF(fn string, ret string, args ...*Term) *Term {
	if !c.declSet[fn] {
		as := make([]string, len(args))
		for i, a := range args {
			as[i] = a.sort
		}
		c.Declare(fn, as, ret)
	}
	return c.App(fn, ret, args...)
}

// raw builds an SMT application of a builtin symbol without simplification.
func (c *Ctx) raw(op, srt string, args ...*Term) *Term {
	return c.mk(op, srt, 0, "", args, nil, nil)
}

// ---------- boolean ----------

func (c *Ctx) Not(a *Term) *Term {
	switch {
	case a.isTrue():
		return c.False()
	case a.isFalse():
		return c.True()
	case a.op == "not":
		return a.args[0]
	}
	return c.raw("not", SBool, a)
}

func (c *Ctx) And(xs ...*Term) *Term {
	var out []*Term
	seen := map[*Term]bool{}
	for _, x := range xs {
		if x.isTrue() {
			continue
		}
		if x.isFalse() {
			return c.False()
		}
		if x.op == "and" {
			for _, y := range x.args {
				if !seen[y] {
					seen[y] = true
					out = append(out, y)
				}
			}
			continue
		}
		if !seen[x] {
			seen[x] = true
			out = append(out, x)
		}
	}
	for _, x := range out {
		if seen[c.Not(x)] && x.op != "not" {
			return c.False()
		}
	}
	switch len(out) {
	case 0:
		return c.True()
	case 1:
		return out[0]
	}
	return c.raw("and", SBool, out...)
}

func (c *Ctx) Or(xs ...*Term) *Term {
	var out []*Term
	seen := map[*Term]bool{}
	for _, x := range xs {
		if x.isFalse() {
			continue
		}
		if x.isTrue() {
			return c.True()
		}
		if x.op == "or" {
			for _, y := range x.args {
				if !seen[y] {
					seen[y] = true
					out = append(out, y)
				}
			}
			continue
		}
		if !seen[x] {
			seen[x] = true
			out = append(out, x)
		}
	}
	for _, x := range out {
		if x.op == "not" && seen[x.args[0]] {
			return c.True()
		}
	}
	switch len(out) {
	case 0:
		return c.False()
	case 1:
		return out[0]
	}
	return c.raw("or", SBool, out...)
}

func (c *Ctx) Implies(a, b *Term) *Term {
	if a.isTrue() {
		return b
	}
	if a.isFalse() || b.isTrue() {
		return c.True()
	}
	if b.isFalse() {
		return c.Not(a)
	}
	return c.raw("=>", SBool, a, b)
}

func (c *Ctx) Ite(g, a, b *Term) *Term {
	if a.sort != b.sort {
		panic(fmt.Sprintf("ite sort mismatch %s vs %s", a.sort, b.sort))
	}
	if g.isTrue() {
		return a
	}
	if g.isFalse() {
		return b
	}
	if a == b {
		return a
	}
	if a.sort == SBool {
		if a.isTrue() && b.isFalse() {
			return g
		}
		if a.isFalse() && b.isTrue() {
			return c.Not(g)
		}
		if a.isTrue() {
			return c.Or(g, b)
		}
		if b.isFalse() {
			return c.And(g, a)
		}
		if a.isFalse() {
			return c.And(c.Not(g), b)
		}
		if b.isTrue() {
			return c.Or(c.Not(g), a)
		}
	}
	// ite(g, x, ite(g, y, z)) -> ite(g,x,z)
	if b.op == "ite" && b.args[0] == g {
		return c.Ite(g, a, b.args[2])
	}
	if a.op == "ite" && a.args[0] == g {
		return c.Ite(g, a.args[1], b)
	}
	return c.raw("ite", a.sort, g, a, b)
}

func (c *Ctx) Eq(a, b *Term) *Term {
	if a.sort != b.sort {
		panic(fmt.Sprintf("eq sort mismatch %s vs %s (%s, %s)", a.sort, b.sort, c.Show(a), c.Show(b)))
	}
	if a == b {
		return c.True()
	}
	if a.isLit() && b.isLit() {
		return c.False() // distinct literals (hash-consed)
	}
	if a.sort == SBool {
		if a.isTrue() {
			return b
		}
		if b.isTrue() {
			return a
		}
		if a.isFalse() {
			return c.Not(b)
		}
		if b.isFalse() {
			return c.Not(a)
		}
	}
	// constructor applications of the same datatype constructor: componentwise
	if a.op == "app" && b.op == "app" && a.name == b.name && isCtor(a.name) && len(a.args) == len(b.args) {
		var cs []*Term
		for i := range a.args {
			cs = append(cs, c.Eq(a.args[i], b.args[i]))
		}
		return c.And(cs...)
	}
	if a.op == "app" && b.op == "app" && isCtor(a.name) && isCtor(b.name) && a.name != b.name {
		return c.False()
	}
	if a.id > b.id {
		a, b = b, a
	}
	return c.raw("=", SBool, a, b)
}

func (c *Ctx) Neq(a, b *Term) *Term { return c.Not(c.Eq(a, b)) }

// constructor registry (names of datatype constructors and their selectors)
var ctorSelectors = map[string][]string{} // ctor -> selector names
var selectorOf = map[string]struct {
	ctor string
	idx  int
}{}

func isCtor(n string) bool { _, ok := ctorSelectors[n]; return ok }

func registerCtor(ctor string, sels []string) {
	ctorSelectors[ctor] = sels
	for i, s := range sels {
		selectorOf[s] = struct {
			ctor string
			idx  int
		}{ctor, i}
	}
}

// Sel applies a datatype selector, simplifying over constructor and ite.
func (c *Ctx) Sel(sel string, ret string, a *Term) *Term {
	if info, ok := selectorOf[sel]; ok {
		if a.op == "app" && a.name == info.ctor {
			return a.args[info.idx]
		}
		if a.op == "ite" && (a.args[1].op == "app" && a.args[1].name == info.ctor || a.args[2].op == "app" && a.args[2].name == info.ctor) {
			return c.Ite(a.args[0], c.Sel(sel, ret, a.args[1]), c.Sel(sel, ret, a.args[2]))
		}
	}
	return c.App(sel, ret, a)
}

// ---------- arrays ----------

// definitelyDistinct: syntactic proof that two terms of same sort differ.
func (c *Ctx) definitelyDistinct(a, b *Term) bool {
	if a == b {
		return false
	}
	if a.isLit() && b.isLit() {
		return true
	}
	if a.op == "app" && b.op == "app" && isCtor(a.name) && isCtor(b.name) {
		if a.name != b.name {
			return true
		}
		for i := range a.args {
			if c.definitelyDistinct(a.args[i], b.args[i]) {
				return true
			}
		}
		return false
	}
	// bvadd(x, k1) vs bvadd(x, k2) / x vs bvadd(x,k)
	if bvWidth(a.sort) > 0 {
		ba, ka := splitAddConst(a)
		bb, kb := splitAddConst(b)
		if ba == bb && ka != kb {
			return true
		}
	}
	return false
}

func splitAddConst(t *Term) (*Term, uint64) {
	if t.op == "bvadd" && len(t.args) == 2 {
		if t.args[1].isBVLit() {
			return t.args[0], t.args[1].val
		}
		if t.args[0].isBVLit() {
			return t.args[1], t.args[0].val
		}
	}
	if t.isBVLit() {
		return nil, t.val
	}
	return t, 0
}

func (c *Ctx) Select(arr, idx *Term) *Term {
	_, es, ok := arrParts(arr.sort)
	if !ok {
		panic("select on non-array " + arr.sort)
	}
	for arr.op == "store" {
		if arr.args[1] == idx {
			return arr.args[2]
		}
		if c.definitelyDistinct(arr.args[1], idx) {
			arr = arr.args[0]
			continue
		}
		break
	}
	if arr.op == "constarr" {
		return arr.args[0]
	}
	return c.raw("select", es, arr, idx)
}

func (c *Ctx) Store(arr, idx, v *Term) *Term {
	is, es, ok := arrParts(arr.sort)
	if !ok {
		panic("store on non-array " + arr.sort)
	}
	if is != idx.sort || es != v.sort {
		panic(fmt.Sprintf("store sort mismatch: arr %s idx %s val %s", arr.sort, idx.sort, v.sort))
	}
	if arr.op == "store" && arr.args[1] == idx {
		arr = arr.args[0]
	}
	return c.raw("store", arr.sort, arr, idx, v)
}

func (c *Ctx) ConstArr(srt string, v *Term) *Term {
	return c.mk("constarr", srt, 0, "", []*Term{v}, nil, nil)
}

// ---------- bit-vectors ----------

func mask(w int) uint64 {
	if w >= 64 {
		return ^uint64(0)
	}
	return (uint64(1) << uint(w)) - 1
}

func signExt(v uint64, w int) int64 {
	if w >= 64 {
		return int64(v)
	}
	if v&(uint64(1)<<uint(w-1)) != 0 {
		return int64(v | ^mask(w))
	}
	return int64(v)
}

func (c *Ctx) BVBin(op string, a, b *Term) *Term {
	if a.sort != b.sort {
		panic(fmt.Sprintf("bv op %s sort mismatch %s vs %s", op, a.sort, b.sort))
	}
	w := bvWidth(a.sort)
	if w > 64 {
		return c.raw(op, a.sort, a, b)
	}
	if a.isBVLit() && b.isBVLit() {
		x, y := a.val, b.val
		switch op {
		case "bvadd":
			return c.BV(x+y, w)
		case "bvsub":
			return c.BV(x-y, w)
		case "bvmul":
			return c.BV(x*y, w)
		case "bvand":
			return c.BV(x&y, w)
		case "bvor":
			return c.BV(x|y, w)
		case "bvxor":
			return c.BV(x^y, w)
		case "bvshl":
			if y >= uint64(w) {
				return c.BV(0, w)
			}
			return c.BV(x<<y, w)
		case "bvlshr":
			if y >= uint64(w) {
				return c.BV(0, w)
			}
			return c.BV(x>>y, w)
		case "bvashr":
			sx := signExt(x, w)
			if y >= uint64(w) {
				y = uint64(w - 1)
			}
			return c.BV(uint64(sx>>y), w)
		case "bvudiv":
			if y != 0 {
				return c.BV(x/y, w)
			}
		case "bvurem":
			if y != 0 {
				return c.BV(x%y, w)
			}
		case "bvsdiv":
			if y != 0 {
				sx, sy := signExt(x, w), signExt(y, w)
				if !(sy == -1 && sx == signExt(uint64(1)<<uint(w-1), w)) {
					return c.BV(uint64(sx/sy), w)
				}
			}
		case "bvsrem":
			if y != 0 {
				sx, sy := signExt(x, w), signExt(y, w)
				if sy != -1 {
					return c.BV(uint64(sx%sy), w)
				}
				return c.BV(0, w)
			}
		}
	}
	switch op {
	case "bvadd":
		if a.isBVLit() && a.val == 0 {
			return b
		}
		if b.isBVLit() && b.val == 0 {
			return a
		}
		// (x + k1) + k2
		if b.isBVLit() && a.op == "bvadd" && a.args[1].isBVLit() {
			return c.BVBin("bvadd", a.args[0], c.BV(a.args[1].val+b.val, w))
		}
		if a.isBVLit() { // canonical: literal on right
			return c.BVBin("bvadd", b, a)
		}
	case "bvsub":
		if b.isBVLit() && b.val == 0 {
			return a
		}
		if a == b {
			return c.BV(0, w)
		}
		if b.isBVLit() {
			return c.BVBin("bvadd", a, c.BV(-b.val, w))
		}
	case "bvmul":
		if a.isBVLit() && a.val == 1 {
			return b
		}
		if b.isBVLit() && b.val == 1 {
			return a
		}
		if a.isBVLit() && a.val == 0 || b.isBVLit() && b.val == 0 {
			return c.BV(0, w)
		}
		if !a.isBVLit() && !b.isBVLit() && a.id > b.id {
			// canonical operand order: x*y and y*x are one term (no solver proves commutativity of a 64-bit multiplier cheaply)
			a, b = b, a
		}
	case "bvand":
		if a.isBVLit() && a.val == 0 || b.isBVLit() && b.val == 0 {
			return c.BV(0, w)
		}
		if a.isBVLit() && a.val == mask(w) {
			return b
		}
		if b.isBVLit() && b.val == mask(w) {
			return a
		}
		if a == b {
			return a
		}
	case "bvor":
		if a.isBVLit() && a.val == 0 {
			return b
		}
		if b.isBVLit() && b.val == 0 {
			return a
		}
		if a == b {
			return a
		}
	case "bvxor":
		if a.isBVLit() && a.val == 0 {
			return b
		}
		if b.isBVLit() && b.val == 0 {
			return a
		}
	case "bvshl", "bvlshr", "bvashr":
		if b.isBVLit() && b.val == 0 {
			return a
		}
	}
	return c.raw(op, a.sort, a, b)
}

func (c *Ctx) BVNot(a *Term) *Term {
	if a.isBVLit() && bvWidth(a.sort) <= 64 {
		return c.BV(^a.val, bvWidth(a.sort))
	}
	return c.raw("bvnot", a.sort, a)
}
func (c *Ctx) BVNeg(a *Term) *Term {
	if a.isBVLit() && bvWidth(a.sort) <= 64 {
		return c.BV(-a.val, bvWidth(a.sort))
	}
	return c.raw("bvneg", a.sort, a)
}

func (c *Ctx) BVCmp(op string, a, b *Term) *Term {
	if a.sort != b.sort {
		panic(fmt.Sprintf("bv cmp %s sort mismatch %s vs %s", op, a.sort, b.sort))
	}
	w := bvWidth(a.sort)
	if w > 64 {
		return c.raw(op, SBool, a, b)
	}
	if a.isBVLit() && b.isBVLit() {
		x, y := a.val, b.val
		sx, sy := signExt(x, w), signExt(y, w)
		switch op {
		case "bvult":
			return c.Bool(x < y)
		case "bvule":
			return c.Bool(x <= y)
		case "bvugt":
			return c.Bool(x > y)
		case "bvuge":
			return c.Bool(x >= y)
		case "bvslt":
			return c.Bool(sx < sy)
		case "bvsle":
			return c.Bool(sx <= sy)
		case "bvsgt":
			return c.Bool(sx > sy)
		case "bvsge":
			return c.Bool(sx >= sy)
		}
	}
	if a == b {
		switch op {
		case "bvule", "bvuge", "bvsle", "bvsge":
			return c.True()
		default:
			return c.False()
		}
	}
	if op == "bvuge" && b.isBVLit() && b.val == 0 {
		return c.True()
	}
	if op == "bvult" && b.isBVLit() && b.val == 0 {
		return c.False()
	}
	return c.raw(op, SBool, a, b)
}

func (c *Ctx) Extract(hi, lo int, a *Term) *Term {
	w := bvWidth(a.sort)
	if lo == 0 && hi == w-1 {
		return a
	}
	if a.isBVLit() && w <= 64 {
		return c.BV(a.val>>uint(lo), hi-lo+1)
	}
	// extract of zero_extend back to original
	if (a.op == "zero_extend" || a.op == "sign_extend") && lo == 0 {
		iw := bvWidth(a.args[0].sort)
		if hi+1 == iw {
			return a.args[0]
		}
		if hi+1 < iw {
			return c.Extract(hi, 0, a.args[0])
		}
	}
	return c.mk("extract", SBV(hi-lo+1), uint64(hi)<<16|uint64(lo), "", []*Term{a}, nil, nil)
}

func (c *Ctx) ZeroExt(a *Term, to int) *Term {
	w := bvWidth(a.sort)
	if to == w {
		return a
	}
	if a.isBVLit() {
		return c.BV(a.val, to)
	}
	return c.mk("zero_extend", SBV(to), uint64(to-w), "", []*Term{a}, nil, nil)
}

func (c *Ctx) SignExt(a *Term, to int) *Term {
	w := bvWidth(a.sort)
	if to == w {
		return a
	}
	if a.isBVLit() && to <= 64 {
		return c.BV(uint64(signExt(a.val, w)), to)
	}
	return c.mk("sign_extend", SBV(to), uint64(to-w), "", []*Term{a}, nil, nil)
}

func (c *Ctx) Concat(a, b *Term) *Term {
	wa, wb := bvWidth(a.sort), bvWidth(b.sort)
	if a.isBVLit() && b.isBVLit() && wa+wb <= 64 {
		return c.BV(a.val<<uint(wb)|b.val, wa+wb)
	}
	return c.raw("concat", SBV(wa+wb), a, b)
}

// ---------- ints ----------

func (c *Ctx) IntBin(op string, a, b *Term) *Term {
	if a.op == "intlit" && b.op == "intlit" {
		x, y := int64(a.val), int64(b.val)
		switch op {
		case "+":
			return c.Int(x + y)
		case "-":
			return c.Int(x - y)
		case "*":
			return c.Int(x * y)
		}
	}
	return c.raw(op, SInt, a, b)
}
func (c *Ctx) IntCmp(op string, a, b *Term) *Term {
	if a.op == "intlit" && b.op == "intlit" {
		x, y := int64(a.val), int64(b.val)
		switch op {
		case "<":
			return c.Bool(x < y)
		case "<=":
			return c.Bool(x <= y)
		case ">":
			return c.Bool(x > y)
		case ">=":
			return c.Bool(x >= y)
		}
	}
	return c.raw(op, SBool, a, b)
}

// ---------- quantifiers ----------

func (c *Ctx) Forall(bvs []*Term, body *Term, pats ...*Term) *Term {
	if body.isTrue() {
		return body
	}
	if !body.open {
		return body
	}
	return c.mk("forall", SBool, 0, "", []*Term{body}, bvs, pats)
}
func (c *Ctx) Exists(bvs []*Term, body *Term) *Term {
	if body.isFalse() {
		return body
	}
	if !body.open {
		return body
	}
	return c.mk("exists", SBool, 0, "", []*Term{body}, bvs, nil)
}

// Subst replaces occurrences of terms (typically bvars or vars) by others.
func (c *Ctx) Subst(t *Term, m map[*Term]*Term) *Term {
	memo := map[*Term]*Term{}
	var rec func(t *Term) *Term
	rec = func(t *Term) *Term {
		if r, ok := m[t]; ok {
			return r
		}
		if len(t.args) == 0 {
			return t
		}
		if r, ok := memo[t]; ok {
			return r
		}
		nargs := make([]*Term, len(t.args))
		changed := false
		for i, a := range t.args {
			nargs[i] = rec(a)
			if nargs[i] != a {
				changed = true
			}
		}
		var r *Term
		if !changed {
			r = t
		} else {
			r = c.rebuild(t, nargs)
		}
		memo[t] = r
		return r
	}
	return rec(t)
}

// AbstractMul rewrites every multiplication of two non-constant bit-vectors into an uninterpreted function
// (with the instance of commutativity for that application as an extra fact). The result is weaker than the
// input: an unsat answer for it proves the original unsatisfiable, a sat answer means nothing.
func (c *Ctx) AbstractMul(ts []*Term) (out []*Term, facts []*Term, changed bool) {
	memo := map[*Term]*Term{}
	seenApp := map[*Term]bool{}
	var rec func(t *Term) *Term
	rec = func(t *Term) *Term {
		if len(t.args) == 0 {
			return t
		}
		if r, ok := memo[t]; ok {
			return r
		}
		nargs := make([]*Term, len(t.args))
		ch := false
		for i, a := range t.args {
			nargs[i] = rec(a)
			if nargs[i] != a {
				ch = true
			}
		}
		var r *Term
		if t.op == "bvmul" && bvWidth(t.sort) > 0 && bvWidth(t.sort) <= 64 && !nargs[0].isBVLit() && !nargs[1].isBVLit() {
			name := fmt.Sprintf("absmul%d", bvWidth(t.sort))
			r = c.UF(name, t.sort, nargs[0], nargs[1])
			changed = true
			if !seenApp[r] && !r.open {
				seenApp[r] = true
				facts = append(facts, c.Eq(r, c.UF(name, t.sort, nargs[1], nargs[0])))
			}
		} else if !ch {
			r = t
		} else {
			r = c.rebuild(t, nargs)
		}
		memo[t] = r
		return r
	}
	for _, t := range ts {
		out = append(out, rec(t))
	}
	return
}

func (c *Ctx) rebuild(t *Term, a []*Term) *Term {
	switch t.op {
	case "not":
		return c.Not(a[0])
	case "and":
		return c.And(a...)
	case "or":
		return c.Or(a...)
	case "=>":
		return c.Implies(a[0], a[1])
	case "ite":
		return c.Ite(a[0], a[1], a[2])
	case "=":
		return c.Eq(a[0], a[1])
	case "select":
		return c.Select(a[0], a[1])
	case "store":
		return c.Store(a[0], a[1], a[2])
	case "bvadd", "bvsub", "bvmul", "bvand", "bvor", "bvxor", "bvshl", "bvlshr", "bvashr", "bvudiv", "bvurem", "bvsdiv", "bvsrem":
		return c.BVBin(t.op, a[0], a[1])
	case "bvult", "bvule", "bvugt", "bvuge", "bvslt", "bvsle", "bvsgt", "bvsge":
		return c.BVCmp(t.op, a[0], a[1])
	case "bvnot":
		return c.BVNot(a[0])
	case "bvneg":
		return c.BVNeg(a[0])
	case "extract":
		return c.Extract(int(t.val>>16), int(t.val&0xffff), a[0])
	case "zero_extend":
		return c.ZeroExt(a[0], bvWidth(t.sort))
	case "sign_extend":
		return c.SignExt(a[0], bvWidth(t.sort))
	case "concat":
		return c.Concat(a[0], a[1])
	case "app":
		if _, ok := selectorOf[t.name]; ok && len(a) == 1 {
			return c.Sel(t.name, t.sort, a[0])
		}
		return c.App(t.name, t.sort, a...)
	case "forall", "exists":
		return c.mk(t.op, t.sort, 0, "", a, t.bvs, t.pats)
	}
	return c.mk(t.op, t.sort, t.val, t.name, a, t.bvs, t.pats)
}

// ---------- printing ----------

func (c *Ctx) Show(t *Term) string {
	var sb strings.Builder
	c.print(&sb, t, nil)
	s := sb.String()
	if len(s) > 400 {
		s = s[:400] + "..."
	}
	return s
}

// ShowFull prints a term without truncation (debugging aid).
func (c *Ctx) ShowFull(t *Term) string {
	var sb strings.Builder
	c.print(&sb, t, nil)
	return sb.String()
}

func (c *Ctx) litText(t *Term) string {
	switch t.op {
	case "true", "false":
		return t.op
	case "bvlit":
		w := bvWidth(t.sort)
		if w%4 == 0 {
			return fmt.Sprintf("#x%0*x", w/4, t.val)
		}
		return fmt.Sprintf("#b%0*b", w, t.val)
	case "intlit":
		v := int64(t.val)
		if v < 0 {
			return fmt.Sprintf("(- %d)", -v)
		}
		return strconv.FormatInt(v, 10)
	}
	return ""
}

// print writes t; named maps closed shared terms to their define-fun names.
func (c *Ctx) print(sb *strings.Builder, t *Term, named map[*Term]string) {
	if n, ok := named[t]; ok {
		sb.WriteString(n)
		return
	}
	c.printNode(sb, t, named)
}

func (c *Ctx) printNode(sb *strings.Builder, t *Term, named map[*Term]string) {
	switch t.op {
	case "true", "false", "bvlit", "intlit":
		sb.WriteString(c.litText(t))
	case "var", "bvar":
		sb.WriteString(quoteSym(t.name))
	case "app":
		if len(t.args) == 0 {
			sb.WriteString(quoteSym(t.name))
			return
		}
		sb.WriteByte('(')
		if strings.HasPrefix(t.name, "is-") {
			sb.WriteString("(_ is " + t.name[3:] + ")")
		} else {
			sb.WriteString(quoteSym(t.name))
		}
		for _, a := range t.args {
			sb.WriteByte(' ')
			c.print(sb, a, named)
		}
		sb.WriteByte(')')
	case "extract":
		fmt.Fprintf(sb, "((_ extract %d %d) ", t.val>>16, t.val&0xffff)
		c.print(sb, t.args[0], named)
		sb.WriteByte(')')
	case "zero_extend", "sign_extend":
		fmt.Fprintf(sb, "((_ %s %d) ", t.op, t.val)
		c.print(sb, t.args[0], named)
		sb.WriteByte(')')
	case "constarr":
		fmt.Fprintf(sb, "((as const %s) ", t.sort)
		c.print(sb, t.args[0], named)
		sb.WriteByte(')')
	case "forall", "exists":
		sb.WriteByte('(')
		sb.WriteString(t.op)
		sb.WriteString(" (")
		for _, b := range t.bvs {
			fmt.Fprintf(sb, "(%s %s)", quoteSym(b.name), b.sort)
		}
		sb.WriteString(") ")
		if len(t.pats) > 0 {
			sb.WriteString("(! ")
		}
		c.print(sb, t.args[0], named)
		if len(t.pats) > 0 {
			sb.WriteString(" :pattern (")
			for i, p := range t.pats {
				if i > 0 {
					sb.WriteByte(' ')
				}
				c.print(sb, p, named)
			}
			sb.WriteString("))")
		}
		sb.WriteByte(')')
	case "tuple":
		panic("cannot print tuple")
	default:
		sb.WriteByte('(')
		sb.WriteString(t.op)
		for _, a := range t.args {
			sb.WriteByte(' ')
			c.print(sb, a, named)
		}
		sb.WriteByte(')')
	}
}

func quoteSym(s string) string {
	for _, r := range s {
		if !(r >= 'a' && r <= 'z' || r >= 'A' && r <= 'Z' || r >= '0' && r <= '9' || r == '_' || r == '.' || r == '!' || r == '$' || r == '?' || r == '-') {
			return "|" + s + "|"
		}
	}
	return s
}

// Script renders a full SMT-LIB2 script asserting all given formulas.
// Closed non-leaf terms referenced more than once become define-funs.
func (c *Ctx) Script(asserts []*Term, opts ScriptOpts) string {
	// collect reachable terms, reference counts, used symbols
	refs := map[*Term]int{}
	var order []*Term // post-order of closed terms
	usedSyms := map[string]bool{}
	visited := map[*Term]bool{}
	var walk func(t *Term)
	walk = func(t *Term) {
		refs[t]++
		if visited[t] {
			return
		}
		visited[t] = true
		if t.op == "var" || t.op == "app" {
			usedSyms[t.name] = true
		}
		for _, a := range t.args {
			walk(a)
		}
		for _, p := range t.pats {
			walk(p)
		}
		order = append(order, t)
	}
	all := append([]*Term{}, asserts...)
	all = append(all, c.axioms...)
	for _, a := range all {
		walk(a)
	}
	for _, a := range opts.GetValues {
		walk(a)
	}
	// symbol-triggered axioms (fixpoint)
	doneSym := map[string]bool{}
	for changed := true; changed; {
		changed = false
		for _, n := range c.decls {
			if usedSyms[n] && !doneSym[n] {
				doneSym[n] = true
				for _, ax := range c.symAxioms[n] {
					all = append(all, ax)
					walk(ax)
					changed = true
				}
			}
		}
	}
	var sb strings.Builder
	if opts.ProduceModels {
		sb.WriteString("(set-option :produce-models true)\n")
	}
	sb.WriteString("(set-logic ALL)\n")
	for _, d := range c.datatypes {
		sb.WriteString(d)
		sb.WriteByte('\n')
	}
	for _, d := range preludeDefs {
		sb.WriteString(d)
		sb.WriteByte('\n')
	}
	for _, n := range c.decls {
		if usedSyms[n] {
			sb.WriteString(c.declOf[n])
			sb.WriteByte('\n')
		}
	}
	named := map[*Term]string{}
	for _, t := range order {
		if t.open || len(t.args) == 0 {
			continue
		}
		if refs[t] < 2 && !(len(opts.Name) > 0 && opts.Name[t] != "") {
			continue
		}
		n := fmt.Sprintf("$t%d", t.id)
		fmt.Fprintf(&sb, "(define-fun %s () %s ", n, t.sort)
		c.printNode(&sb, t, named)
		sb.WriteString(")\n")
		named[t] = n
	}
	for _, a := range all {
		sb.WriteString("(assert ")
		c.print(&sb, a, named)
		sb.WriteString(")\n")
	}
	for _, g := range sortedKeys(c.distinct) {
		var us []string
		for _, n := range c.distinct[g] {
			if usedSyms[n] {
				us = append(us, quoteSym(n))
			}
		}
		if len(us) >= 2 {
			sb.WriteString("(assert (distinct " + strings.Join(us, " ") + "))\n")
		}
	}
	sb.WriteString("(check-sat)\n")
	if len(opts.GetValues) > 0 {
		sb.WriteString("(get-value (")
		for _, v := range opts.GetValues {
			c.print(&sb, v, named)
			sb.WriteByte(' ')
		}
		sb.WriteString("))\n")
	}
	return sb.String()
}

type ScriptOpts struct {
	ProduceModels bool
	GetValues     []*Term
	Name          map[*Term]string
}

// ---------- prelude: Ref / Slice datatypes ----------

var preludeDatatypes = []string{
	// A reference is a root object id plus an access path.
	"(declare-datatypes ((Path 0)) (((pnil) (pfld (pfld_par Path) (pfld_idx Int)) (pelem (pelem_par Path) (pelem_idx (_ BitVec 64))))))",
	"(declare-datatypes ((Ref 0)) (((mkref (rroot Int) (rpath Path)))))",
	"(declare-datatypes ((Slice 0)) (((mkslice (sl_ptr Ref) (sl_off (_ BitVec 64)) (sl_len (_ BitVec 64)) (sl_cap (_ BitVec 64))))))",
	"(declare-sort Str 0)",
	"(declare-sort Iface 0)",
}

var preludeDefs = []string{}

func (c *Ctx) initPrelude() {
	c.datatypes = append(c.datatypes, preludeDatatypes...)
	registerCtor("pnil", nil)
	registerCtor("pfld", []string{"pfld_par", "pfld_idx"})
	registerCtor("pelem", []string{"pelem_par", "pelem_idx"})
	registerCtor("mkref", []string{"rroot", "rpath"})
	registerCtor("mkslice", []string{"sl_ptr", "sl_off", "sl_len", "sl_cap"})
}

func (c *Ctx) Null() *Term {
	return c.App("mkref", SRef, c.Int(0), c.App("pnil", "Path"))
}
func (c *Ctx) Obj(id *Term) *Term {
	return c.App("mkref", SRef, id, c.App("pnil", "Path"))
}
func (c *Ctx) RRoot(r *Term) *Term { return c.Sel("rroot", SInt, r) }
func (c *Ctx) RPath(r *Term) *Term { return c.Sel("rpath", "Path", r) }
func (c *Ctx) RSub(r *Term, fld int) *Term {
	return c.App("mkref", SRef, c.RRoot(r), c.App("pfld", "Path", c.RPath(r), c.Int(int64(fld))))
}
func (c *Ctx) RElem(r *Term, idx *Term) *Term {
	return c.App("mkref", SRef, c.RRoot(r), c.App("pelem", "Path", c.RPath(r), idx))
}
func (c *Ctx) MkSlice(ptr, off, ln, cp *Term) *Term {
	return c.App("mkslice", SSlice, ptr, off, ln, cp)
}
func (c *Ctx) SlPtr(s *Term) *Term { return c.Sel("sl_ptr", SRef, s) }
func (c *Ctx) SlOff(s *Term) *Term { return c.Sel("sl_off", SBV(64), s) }
func (c *Ctx) SlLen(s *Term) *Term { return c.Sel("sl_len", SBV(64), s) }
func (c *Ctx) SlCap(s *Term) *Term { return c.Sel("sl_cap", SBV(64), s) }
func (c *Ctx) NilSlice() *Term {
	return c.MkSlice(c.Null(), c.BV(0, 64), c.BV(0, 64), c.BV(0, 64))
}

// DeclareDatatype registers a single-constructor record datatype.
func (c *Ctx) DeclareRecord(name, ctor string, sels []string, sorts []string) {
	if c.dtSet[name] {
		return
	}
	c.dtSet[name] = true
	var sb strings.Builder
	fmt.Fprintf(&sb, "(declare-datatypes ((%s 0)) (((%s", name, ctor)
	for i := range sels {
		fmt.Fprintf(&sb, " (%s %s)", sels[i], sorts[i])
	}
	sb.WriteString("))))")
	c.datatypes = append(c.datatypes, sb.String())
	registerCtor(ctor, sels)
}

func (c *Ctx) DeclareSort(name string) {
	if c.dtSet[name] {
		return
	}
	c.dtSet[name] = true
	c.datatypes = append(c.datatypes, fmt.Sprintf("(declare-sort %s 0)", name))
}

func sortedKeys[V any](m map[string]V) []string {
	ks := make([]string, 0, len(m))
	for k := range m {
		ks = append(ks, k)
	}
	sort.Strings(ks)
	return ks
}

package main

// replay.go: turn a counterexample model into a Go test against the real code.

func (x *Exec) buildReplay(prop string, o *Obligation, work string, timeout int) (string, bool) {
	return "", false
}

package main

// replay.go: turn a counterexample model into a Go test that drives the REAL
// function (injected with `go test -overlay`, nothing is written into the repo)
// and evaluates the violated contract clause on the real run.

import (
	"bytes"
	"context"
	"encoding/json"
	"fmt"
	"go/ast"
	"go/parser"
	"go/types"
	"math/big"
	"os"
	"os/exec"
	"path/filepath"
	"sort"
	"strconv"
	"strings"
	"time"
)

type inputBuilder struct {
	x      *Exec
	fr     *Frame
	o      *Obligation
	work   string
	tmo    int
	vals   map[*Term]string
	wants  []*Term
	wantSet map[*Term]bool
	pre    []string // preamble statements
	nvar   int
	pkgTypes *types.Package
	partial []string
	imports map[string]bool
	small  []*Term
}

func (b *inputBuilder) val(t *Term) (string, bool) {
	if t.isLit() {
		return b.x.c.litText(t), true
	}
	if v, ok := b.vals[t]; ok {
		return v, true
	}
	if !b.wantSet[t] {
		b.wantSet[t] = true
		b.wants = append(b.wants, t)
	}
	return "", false
}

func parseBV(s string) (*big.Int, bool) {
	s = strings.TrimSpace(s)
	switch {
	case strings.HasPrefix(s, "#x"):
		n, ok := new(big.Int).SetString(s[2:], 16)
		return n, ok
	case strings.HasPrefix(s, "#b"):
		n, ok := new(big.Int).SetString(s[2:], 2)
		return n, ok
	case strings.HasPrefix(s, "(_ bv"):
		f := strings.Fields(strings.Trim(s, "()"))
		if len(f) >= 2 {
			n, ok := new(big.Int).SetString(strings.TrimPrefix(f[1], "bv"), 10)
			return n, ok
		}
	case strings.HasPrefix(s, "(- "):
		n, ok := new(big.Int).SetString(strings.TrimSuffix(s[3:], ")"), 10)
		if ok {
			n.Neg(n)
		}
		return n, ok
	}
	n, ok := new(big.Int).SetString(s, 10)
	return n, ok
}

func (b *inputBuilder) u64(t *Term) (uint64, bool) {
	s, ok := b.val(t)
	if !ok {
		return 0, false
	}
	n, ok := parseBV(s)
	if !ok {
		return 0, false
	}
	return n.Uint64(), true
}

func (b *inputBuilder) boolv(t *Term) (bool, bool) {
	s, ok := b.val(t)
	if !ok {
		return false, false
	}
	return s == "true", true
}

func (b *inputBuilder) qual() types.Qualifier {
	return func(p *types.Package) string {
		if p == b.pkgTypes {
			return ""
		}
		b.imports[p.Path()] = true
		return p.Name()
	}
}

func (b *inputBuilder) typeStr(t types.Type) string {
	return types.TypeString(substTypeParams(t), b.qual())
}

func (b *inputBuilder) newVar(prefix string) string {
	b.nvar++
	return fmt.Sprintf("%s_%d", prefix, b.nvar)
}

// intLit renders the model value of an integer-typed term as a Go expression of type t.
func (b *inputBuilder) intLit(v *Term, t types.Type) (string, bool) {
	n, ok := b.u64(v)
	if !ok {
		return "", false
	}
	w := bvWidth(v.sort)
	var lit string
	if isSignedType(t) {
		lit = strconv.FormatInt(signExt(n, w), 10)
	} else {
		lit = strconv.FormatUint(n, 10)
	}
	if bt, ok := t.(*types.Basic); ok && (bt.Kind() == types.Int || bt.Info()&types.IsUntyped != 0) {
		return lit, true
	}
	return fmt.Sprintf("%s(%s)", b.typeStr(t), lit), true
}

const maxReplayElems = 1 << 16

// goValue renders the model value of term v (Go type t) as a Go expression; ok=false if values still need fetching.
func (b *inputBuilder) goValue(v *Term, t types.Type, depth int) (string, bool) {
	x := b.x
	c := x.c
	entry := b.fr.entry
	if _, special := x.ti.specialNamed(types.Unalias(t)); special {
		switch x.ti.sortOf(t) {
		case "Addr":
			return b.addrValue(v)
		case "AddrPort":
			a, ok1 := b.addrValue(c.Sel("ap_addr", "Addr", v))
			p, ok2 := b.u64(c.Sel("ap_port", SBV(16), v))
			b.imports["net/netip"] = true
			return fmt.Sprintf("netip.AddrPortFrom(%s, %d)", a, p), ok1 && ok2
		case "Prefix":
			a, ok1 := b.addrValue(c.Sel("pfx_addr", "Addr", v))
			p, ok2 := b.u64(c.Sel("pfx_bits1", SBV(8), v))
			b.imports["net/netip"] = true
			if ok2 && p == 0 {
				return "netip.Prefix{}", ok1
			}
			return fmt.Sprintf("netip.PrefixFrom(%s, %d)", a, int(p)-1), ok1 && ok2
		}
		b.partial = append(b.partial, "value of "+t.String()+" left zero")
		return fmt.Sprintf("*new(%s)", b.typeStr(t)), true
	}
	switch u := types.Unalias(t).Underlying().(type) {
	case *types.Basic:
		switch {
		case u.Info()&types.IsBoolean != 0:
			bv, ok := b.boolv(v)
			return fmt.Sprintf("%s(%v)", b.typeStr(t), bv), ok
		case u.Info()&types.IsInteger != 0:
			return b.intLit(v, t)
		case u.Info()&types.IsString != 0:
			n, ok := b.u64(c.StrLen(v))
			if !ok {
				return "", false
			}
			if n > 4096 {
				b.partial = append(b.partial, "string truncated to 4096 bytes")
				n = 4096
			}
			var bs []string
			all := true
			for i := uint64(0); i < n; i++ {
				e, ok := b.u64(c.StrAt(v, c.BV(i, 64)))
				if !ok {
					all = false
				}
				bs = append(bs, strconv.FormatUint(e, 10))
			}
			return fmt.Sprintf("%s([]byte{%s})", b.typeStr(t), strings.Join(bs, ",")), all
		}
	case *types.Slice:
		if !x.ti.isLeaf(u.Elem()) || !isIntType(u.Elem()) {
			n, ok := b.u64(c.SlLen(v))
			if !ok {
				return "", false
			}
			b.partial = append(b.partial, "elements of "+t.String()+" left zero")
			if n > maxReplayElems {
				return "", true
			}
			return fmt.Sprintf("make(%s, %d)", b.typeStr(t), n), true
		}
		isNil, ok0 := b.boolv(c.Eq(c.SlPtr(v), c.Null()))
		ln, ok1 := b.u64(c.SlLen(v))
		cp, ok2 := b.u64(c.SlCap(v))
		if !(ok0 && ok1 && ok2) {
			return "", false
		}
		if isNil && cp == 0 {
			return fmt.Sprintf("%s(nil)", b.typeStr(t)), true
		}
		if cp > maxReplayElems {
			b.partial = append(b.partial, fmt.Sprintf("model needs a %d-element slice: too large to replay", cp))
			return "", true
		}
		name := b.newVar("sl")
		var sb strings.Builder
		fmt.Fprintf(&sb, "%s := make(%s, %d, %d)\n", name, b.typeStr(t), ln, cp)
		all := true
		es := x.ti.sortOf(u.Elem())
		mem := x.memByKey(entry, es)
		fmt.Fprintf(&sb, "%s = %s[:%d]\n", name, name, cp)
		for i := uint64(0); i < cp; i++ {
			e, ok := b.u64(c.Select(mem, x.sliceElemAddr(v, c.BV(i, 64))))
			if !ok {
				all = false
				continue
			}
			if e != 0 {
				lit, _ := b.intLit(c.BV(e, bvWidth(es)), u.Elem())
				fmt.Fprintf(&sb, "%s[%d] = %s\n", name, i, lit)
			}
		}
		fmt.Fprintf(&sb, "%s = %s[:%d]\n", name, name, ln)
		if all {
			b.pre = append(b.pre, sb.String())
		}
		return name, all
	case *types.Pointer:
		isNil, ok := b.boolv(c.Eq(v, c.Null()))
		if !ok {
			return "", false
		}
		if isNil {
			return "nil", true
		}
		if depth > 2 {
			b.partial = append(b.partial, "deep pointer left as zero object")
			return fmt.Sprintf("new(%s)", b.typeStr(u.Elem())), true
		}
		name := b.newVar("p")
		inner, ok := b.goValue(x.load(entry, v, u.Elem()), u.Elem(), depth+1)
		if !ok {
			return "", false
		}
		b.pre = append(b.pre, fmt.Sprintf("%s := new(%s)\n*%s = %s\n", name, b.typeStr(u.Elem()), name, inner))
		return name, true
	case *types.Struct:
		var fs []string
		all := true
		s := x.ti.structSort(types.Unalias(t), u)
		for i := 0; i < u.NumFields(); i++ {
			f := u.Field(i)
			if f.Name() == "_" {
				continue
			}
			if f.Pkg() != nil && f.Pkg() != b.pkgTypes && !f.Exported() {
				b.partial = append(b.partial, "unexported foreign field "+f.Name()+" left zero")
				continue
			}
			fv := c.Sel(fmt.Sprintf("%s_f%d", s, i), x.ti.sortOf(f.Type()), v)
			e, ok := b.goValue(fv, f.Type(), depth+1)
			if !ok {
				all = false
				continue
			}
			if e != "" {
				fs = append(fs, fmt.Sprintf("%s: %s", f.Name(), e))
			}
		}
		return fmt.Sprintf("%s{%s}", b.typeStr(t), strings.Join(fs, ", ")), all
	case *types.Array:
		if u.Len() > 64 || !isIntType(u.Elem()) {
			b.partial = append(b.partial, "array "+t.String()+" left zero")
			return fmt.Sprintf("%s{}", b.typeStr(t)), true
		}
		var es []string
		all := true
		for i := int64(0); i < u.Len(); i++ {
			e, ok := b.intLit(c.Select(v, c.BV(uint64(i), 64)), u.Elem())
			if !ok {
				all = false
			}
			es = append(es, e)
		}
		return fmt.Sprintf("%s{%s}", b.typeStr(t), strings.Join(es, ", ")), all
	case *types.Signature:
		// a do-nothing function value (the callback is arbitrary caller code)
		var ps, rs, zs []string
		for i := 0; i < u.Params().Len(); i++ {
			pt := b.typeStr(u.Params().At(i).Type())
			if u.Variadic() && i == u.Params().Len()-1 {
				pt = "..." + b.typeStr(u.Params().At(i).Type().(*types.Slice).Elem())
			}
			ps = append(ps, fmt.Sprintf("a%d %s", i, pt))
		}
		for i := 0; i < u.Results().Len(); i++ {
			rs = append(rs, fmt.Sprintf("r%d %s", i, b.typeStr(u.Results().At(i).Type())))
		}
		_ = zs
		return fmt.Sprintf("%s(func(%s) (%s) { return })", b.typeStr(t), strings.Join(ps, ", "), strings.Join(rs, ", ")), true
	case *types.Interface, *types.Map, *types.Chan:
		b.partial = append(b.partial, "value of "+t.String()+" left nil")
		return "nil", true
	}
	b.partial = append(b.partial, "value of "+t.String()+" left zero")
	return fmt.Sprintf("*new(%s)", b.typeStr(t)), true
}

func (b *inputBuilder) addrValue(v *Term) (string, bool) {
	c := b.x.c
	hi, ok1 := b.u64(c.addrHi(v))
	lo, ok2 := b.u64(c.addrLo(v))
	z, ok3 := b.u64(c.addrZ(v))
	if !(ok1 && ok2 && ok3) {
		return "", false
	}
	b.imports["net/netip"] = true
	switch {
	case z == z0:
		return "netip.Addr{}", true
	case z == z4:
		return fmt.Sprintf("netip.AddrFrom4([4]byte{%d,%d,%d,%d})", byte(lo>>24), byte(lo>>16), byte(lo>>8), byte(lo)), true
	}
	var bs []string
	for i := 0; i < 8; i++ {
		bs = append(bs, strconv.Itoa(int(byte(hi>>(56-8*i)))))
	}
	for i := 0; i < 8; i++ {
		bs = append(bs, strconv.Itoa(int(byte(lo>>(56-8*i)))))
	}
	e := fmt.Sprintf("netip.AddrFrom16([16]byte{%s})", strings.Join(bs, ","))
	if z > z6 {
		e += fmt.Sprintf(".WithZone(\"z%d\")", z)
	}
	return e, true
}

// fetch asks the solver for the wanted terms, pinning everything already known.
func (b *inputBuilder) fetch() bool {
	if len(b.wants) == 0 {
		return true
	}
	x := b.x
	c := x.c
	var pins []*Term
	var keys []*Term
	for t := range b.vals {
		keys = append(keys, t)
	}
	sort.Slice(keys, func(i, j int) bool { return keys[i].id < keys[j].id })
	for _, t := range keys {
		if lit := b.litOf(t, b.vals[t]); lit != nil {
			pins = append(pins, c.Eq(t, lit))
		}
	}
	try := func(extra []*Term) ([]string, bool) {
		o2 := *b.o
		o2.Guard = c.And(append([]*Term{b.o.Guard}, append(pins, extra...)...)...)
		return x.queryModel(&o2, b.wants, b.work, b.tmo)
	}
	vals, ok := try(b.small)
	if !ok && len(b.small) > 0 {
		vals, ok = try(nil)
	}
	if !ok {
		return false
	}
	for i, t := range b.wants {
		b.vals[t] = vals[i]
	}
	b.wants = nil
	return true
}

func (b *inputBuilder) litOf(t *Term, s string) *Term {
	c := b.x.c
	switch {
	case t.sort == SBool:
		return c.Bool(s == "true")
	case bvWidth(t.sort) > 0 && bvWidth(t.sort) <= 64:
		n, ok := parseBV(s)
		if !ok {
			return nil
		}
		return c.BV(n.Uint64(), bvWidth(t.sort))
	case t.sort == SInt:
		n, ok := parseBV(s)
		if !ok {
			return nil
		}
		return c.Int(n.Int64())
	}
	return nil
}

// clauseToGo rewrites a contract clause for evaluation at run time: old(e) -> captured variable.
func clauseToGo(text string) (expr string, olds []string, evaluable bool) {
	e, err := parser.ParseExpr(text)
	if err != nil {
		return "", nil, false
	}
	evaluable = true
	type rep struct {
		from, to int
		with     string
	}
	var reps []rep
	ast.Inspect(e, func(n ast.Node) bool {
		call, ok := n.(*ast.CallExpr)
		if !ok {
			return true
		}
		id, ok := call.Fun.(*ast.Ident)
		if !ok {
			return true
		}
		switch id.Name {
		case "old":
			arg := text[call.Args[0].Pos()-1 : call.Args[0].End()-1]
			name := fmt.Sprintf("verifOld%d", len(olds))
			olds = append(olds, fmt.Sprintf("%s := %s", name, arg))
			reps = append(reps, rep{int(call.Pos()) - 1, int(call.End()) - 1, name})
			return false
		case "forall", "exists", "fresh", "allocated", "unchanged", "elems":
			evaluable = false
		}
		return true
	})
	sort.Slice(reps, func(i, j int) bool { return reps[i].from > reps[j].from })
	out := text
	for _, r := range reps {
		out = out[:r.from] + r.with + out[r.to:]
	}
	return out, olds, evaluable
}

func (x *Exec) buildReplay(prop string, o *Obligation, work string, timeout int) (string, bool) {
	fr := o.Frame
	if fr == nil || fr.fn == nil || fr.entry == nil {
		return "", false
	}
	pkg := x.P.PkgByPath[fr.fn.Pkg.Pkg.Path()]
	if pkg == nil {
		return "", false
	}
	c := x.c
	b := &inputBuilder{x: x, fr: fr, o: o, work: work, tmo: min(timeout, 20), vals: map[*Term]string{}, wantSet: map[*Term]bool{}, pkgTypes: pkg.Types, imports: map[string]bool{"testing": true}}
	for i := range fr.fn.Params {
		if fr.params[i].sort == SSlice {
			b.small = append(b.small, c.BVCmp("bvule", c.SlCap(fr.params[i]), c.BV(4096, 64)))
		}
	}
	var argExprs []string
	for round := 0; round < 6; round++ {
		b.pre = nil
		b.nvar = 0
		b.partial = nil
		argExprs = nil
		complete := true
		for i, p := range fr.fn.Params {
			e, ok := b.goValue(fr.params[i], p.Type(), 0)
			if !ok {
				complete = false
			}
			if e == "" && ok {
				return "// model not replayable: " + strings.Join(b.partial, "; ") + "\n", false
			}
			argExprs = append(argExprs, e)
		}
		if complete {
			break
		}
		if !b.fetch() {
			return "// the solver returned no model values for the inputs\n", false
		}
		if round == 5 {
			return "// model extraction did not converge\n", false
		}
	}
	// generate the test
	fn := fr.fn
	var body strings.Builder
	for _, p := range b.pre {
		body.WriteString(p)
	}
	names := make([]string, len(fn.Params))
	for i, p := range fn.Params {
		n := p.Name()
		if n == "" || n == "_" {
			n = fmt.Sprintf("arg%d", i)
		}
		names[i] = n
		fmt.Fprintf(&body, "var %s %s = %s\n_ = %s\n", n, b.typeStr(p.Type()), argExprs[i], n)
	}
	if fr.contract != nil {
		for _, r := range fr.contract.Replay {
			body.WriteString(r + "\n")
		}
		for _, rq := range fr.contract.Requires {
			if e, olds, ok := clauseToGo(rq.Text); ok && len(olds) == 0 {
				fmt.Fprintf(&body, "if !(%s) { verifT.Skipf(\"VERIF-REPLAY-INVALID: constructed inputs do not satisfy requires %%s\", %q) }\n", e, rq.Text)
			}
		}
		for _, oc := range fr.contract.Olds {
			fmt.Fprintf(&body, "%s := %s\n_ = %s\n", oc.Ghost, oc.Text, oc.Ghost)
		}
	}
	nilPartial := false
	for _, p := range b.partial {
		if strings.Contains(p, "left nil") || strings.Contains(p, "left zero") {
			nilPartial = true
		}
	}
	// which clause to evaluate
	clauseExpr, evaluable := "", false
	var oldStmts []string
	if o.Kind == "ensures" && o.Text != "" {
		clauseExpr, oldStmts, evaluable = clauseToGo(o.Text)
		if evaluable && fr.contract != nil {
			if e, err := parser.ParseExpr(o.Text); err == nil {
				free := freeIdents(e)
				for _, g := range fr.contract.Ghosts {
					if free[g.Ghost] {
						evaluable = false // ghost state does not exist at run time
					}
				}
			}
		}
	}
	for _, s := range oldStmts {
		body.WriteString(s + "\n_ = " + strings.SplitN(s, " ", 2)[0] + "\n")
	}
	// call
	sig := fn.Signature
	var call string
	if sig.Recv() != nil {
		call = fmt.Sprintf("%s.%s(%s)", names[0], fn.Name(), strings.Join(names[1:], ", "))
	} else {
		targs := ""
		if tp := sig.TypeParams(); tp != nil && tp.Len() > 0 {
			var as []string
			for i := 0; i < tp.Len(); i++ {
				as = append(as, "any")
			}
			targs = "[" + strings.Join(as, ", ") + "]"
		}
		call = fmt.Sprintf("%s%s(%s)", fn.Name(), targs, strings.Join(names, ", "))
	}
	if sig.Variadic() {
		call = strings.TrimSuffix(call, ")") + "...)"
	}
	nres := sig.Results().Len()
	var resNames []string
	for i := 0; i < nres; i++ {
		resNames = append(resNames, fmt.Sprintf("result%d", i))
	}
	body.WriteString("verifPanicked := true\nvar verifPanicVal any\n")
	for i := 0; i < nres; i++ {
		fmt.Fprintf(&body, "var %s %s\n_ = %s\n", resNames[i], b.typeStr(sig.Results().At(i).Type()), resNames[i])
	}
	body.WriteString("func() {\ndefer func() { if verifPanicked { verifPanicVal = recover() } }()\n")
	if nres > 0 {
		fmt.Fprintf(&body, "%s = %s\n", strings.Join(resNames, ", "), call)
	} else {
		body.WriteString(call + "\n")
	}
	body.WriteString("verifPanicked = false\n}()\n")
	mayPanic := fr.contract != nil && fr.contract.MayPanic
	if nilPartial {
		body.WriteString("if verifPanicked { verifT.Skipf(\"VERIF-REPLAY-INCONCLUSIVE: panic with partially constructed inputs: %v\", verifPanicVal) }\n")
	} else if !mayPanic {
		body.WriteString("if verifPanicked { verifT.Fatalf(\"VERIF-REPLAY-VIOLATED: the real function panicked: %v\", verifPanicVal) }\n")
	} else {
		body.WriteString("if verifPanicked { verifT.Logf(\"panicked (allowed by contract): %v\", verifPanicVal); return }\n")
	}
	if evaluable {
		if nres == 1 {
			body.WriteString("result := result0\n_ = result\n")
			if nm := sig.Results().At(0).Name(); nm != "" && nm != "_" && !contains(names, nm) {
				fmt.Fprintf(&body, "%s := result0\n_ = %s\n", nm, nm)
			}
		} else {
			for i := 0; i < nres; i++ {
				if nm := sig.Results().At(i).Name(); nm != "" && nm != "_" && !contains(names, nm) {
					fmt.Fprintf(&body, "%s := result%d\n_ = %s\n", nm, i, nm)
				}
			}
		}
		fmt.Fprintf(&body, "if !(%s) { verifT.Fatalf(\"VERIF-REPLAY-VIOLATED: clause does not hold on the real run: %%s\", %q) }\n", clauseExpr, o.Text)
	}
	body.WriteString("verifT.Logf(\"VERIF-REPLAY-PASSED\")\n")
	testName := "TestVerifReplay_" + sanitize(strings.ReplaceAll(o.Name, ".", "_"))
	var src strings.Builder
	src.WriteString("//go:build verif\n\n")
	fmt.Fprintf(&src, "// Counterexample replay for obligation %s (property %s).\n", o.Name, prop)
	fmt.Fprintf(&src, "// Clause: %s\n", o.Text)
	pkgRel, _ := filepath.Rel(x.P.Repo, filepath.Dir(x.P.Fset.Position(fr.decl.Pos()).Filename))
	fmt.Fprintf(&src, "// Run: /verif/check %s --replay <this file>   (go test -tags verif -overlay ... -run %s ./%s)\n", prop, testName, pkgRel)
	fmt.Fprintf(&src, "// verif-replay-pkg: ./%s\n// verif-replay-test: %s\n", pkgRel, testName)
	if len(b.partial) > 0 {
		fmt.Fprintf(&src, "// Partial model: %s\n", strings.Join(b.partial, "; "))
	}
	fmt.Fprintf(&src, "\npackage %s\n\nimport (\n", pkg.Types.Name())
	var imps []string
	for p := range b.imports {
		imps = append(imps, p)
	}
	sort.Strings(imps)
	for _, p := range imps {
		fmt.Fprintf(&src, "\t%q\n", p)
	}
	src.WriteString(")\n\n")
	fmt.Fprintf(&src, "func %s(verifT *testing.T) {\n%s}\n", testName, body.String())
	text := src.String()
	// save and run
	dir := *flagReplays
	if dir == "" {
		dir = filepath.Join("/verif/replays", prop)
	}
	os.MkdirAll(dir, 0o755)
	gofile := filepath.Join(dir, sanitizeFile(o.Name)+"_test.go")
	os.WriteFile(gofile, []byte(text), 0o644)
	out, violated := runReplay(x.P.Repo, gofile, "./"+pkgRel, testName)
	res := "// replay file: " + gofile + "\n// replay output:\n"
	for _, l := range strings.Split(trunc(out, 3000), "\n") {
		res += "//   " + l + "\n"
	}
	if violated {
		o.replayFile = gofile
	}
	return res, violated
}

func contains(xs []string, s string) bool {
	for _, x := range xs {
		if x == s {
			return true
		}
	}
	return false
}

// runReplay injects the test file into the package with -overlay and runs it.
func runReplay(repo, gofile, pkg, test string) (string, bool) {
	tmp, err := os.MkdirTemp("", "govc-replay")
	if err != nil {
		return err.Error(), false
	}
	defer os.RemoveAll(tmp)
	target := filepath.Join(repo, pkg, "zz_verif_replay_test.go")
	ov := map[string]any{"Replace": map[string]string{target: gofile}}
	ovb, _ := json.Marshal(ov)
	ovf := filepath.Join(tmp, "ov.json")
	os.WriteFile(ovf, ovb, 0o644)
	ctx, cancel := context.WithTimeout(context.Background(), 180*time.Second)
	defer cancel()
	cmd := exec.CommandContext(ctx, "bash", "-c", fmt.Sprintf("ulimit -v 8000000; cd %q && go test -tags verif -overlay %q -vet=off -count=1 -timeout 60s -run '^%s$' -v %s 2>&1", repo, ovf, test, pkg))
	cmd.Env = append(os.Environ(), "GOFLAGS=-mod=mod", "GOPROXY=off", "GOSUMDB=off", "GOTOOLCHAIN=local")
	var out bytes.Buffer
	cmd.Stdout = &out
	cmd.Stderr = &out
	cmd.Run()
	s := out.String()
	return s, strings.Contains(s, "VERIF-REPLAY-VIOLATED")
}

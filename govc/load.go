package main

// load.go: load /repo packages (working tree, -tags verif) and build go/ssa.

import (
	"os/exec"
	"fmt"
	"go/ast"
	"go/token"
	"go/types"
	"os"
	"path/filepath"
	"sort"
	"strings"

	"golang.org/x/tools/go/packages"
	"golang.org/x/tools/go/ssa"
	"golang.org/x/tools/go/ssa/ssautil"
)

type Program struct {
	Repo      string
	Fset      *token.FileSet
	Pkgs      []*packages.Package
	PkgByPath map[string]*packages.Package
	SSA       *ssa.Program
	SSAPkgs   map[string]*ssa.Package
	Contracts map[string]*FuncContract // by canonical key
	ContractList []*FuncContract
	FuncDecl  map[string]*ast.FuncDecl // by canonical key
	FuncByKey map[string]*ssa.Function
	ContractFilePos map[string]token.Pos // pkgpath -> a position inside the contract file (file scope)
	ContractFiles []string
	LoadSeconds float64
}

const contractFileName = "zz_verif_contracts.go"

// scratch copies of dependency modules made by loadProgram; removed by main on exit
var extScratchDirs []string

// implSuffix marks the key of an "impl" view of a function's contract (see parseContracts).
const implSuffix = "~impl"

func loadProgram(repo string, patterns []string) (*Program, error) {
	fset := token.NewFileSet()
	env := append(os.Environ(), "GOFLAGS=-mod=mod", "GOPROXY=off", "GOSUMDB=off", "GOTOOLCHAIN=local")
	cfg := &packages.Config{
		Mode: packages.NeedName | packages.NeedFiles | packages.NeedCompiledGoFiles | packages.NeedImports |
			packages.NeedDeps | packages.NeedTypes | packages.NeedSyntax | packages.NeedTypesInfo | packages.NeedTypesSizes | packages.NeedModule,
		Dir:        repo,
		Fset:       fset,
		Env:        env,
		BuildFlags: []string{"-tags=verif"},
	}
	// Dependency packages under contract (extspec/<import path>/): Go refuses overlays inside the module cache, so
	// the module is copied to a scratch directory together with its contract file and the load uses a scratch copy
	// of /repo's go.mod (-modfile) with a replace directive pointing there. Neither /repo nor the cache is written.
	ext := extSpecDir()
	var replaces []string
	scratch := ""
	for _, pat := range patterns {
		if strings.HasPrefix(pat, ".") {
			continue
		}
		b, err := os.ReadFile(filepath.Join(ext, filepath.FromSlash(pat), contractFileName))
		if err != nil {
			continue
		}
		cmd := exec.Command("go", "list", "-m", "-f", "{{.Dir}}", pat)
		cmd.Dir = repo
		cmd.Env = env
		out, err := cmd.Output()
		if err != nil {
			return nil, fmt.Errorf("cannot locate dependency module %s (only packages at a module root are supported): %v", pat, err)
		}
		if scratch == "" {
			scratch, err = os.MkdirTemp("", "govc-extmod-")
			if err != nil {
				return nil, err
			}
			extScratchDirs = append(extScratchDirs, scratch)
		}
		dst := filepath.Join(scratch, filepath.Base(pat))
		if out, err := exec.Command("cp", "-r", strings.TrimSpace(string(out)), dst).CombinedOutput(); err != nil {
			return nil, fmt.Errorf("copying %s: %v %s", pat, err, out)
		}
		exec.Command("chmod", "-R", "u+w", dst).Run()
		if err := os.WriteFile(filepath.Join(dst, contractFileName), b, 0o644); err != nil {
			return nil, err
		}
		replaces = append(replaces, fmt.Sprintf("replace %s => %s", pat, dst))
	}
	if len(replaces) > 0 {
		gm, err := os.ReadFile(filepath.Join(repo, "go.mod"))
		if err != nil {
			return nil, err
		}
		mf := filepath.Join(scratch, "go.mod")
		os.WriteFile(mf, []byte(string(gm)+"\n"+strings.Join(replaces, "\n")+"\n"), 0o644)
		if gs, err := os.ReadFile(filepath.Join(repo, "go.sum")); err == nil {
			os.WriteFile(filepath.Join(scratch, "go.sum"), gs, 0o644)
		}
		cfg.BuildFlags = append(cfg.BuildFlags, "-modfile="+mf)
	}
	pkgs, err := packages.Load(cfg, patterns...)
	if err != nil {
		return nil, err
	}
	var errs []string
	for _, p := range pkgs {
		for _, e := range p.Errors {
			errs = append(errs, e.Error())
		}
	}
	if len(errs) > 0 {
		return nil, fmt.Errorf("package load errors (contract does not type-check or repo does not build):\n  %s", strings.Join(errs, "\n  "))
	}
	prog, ssapkgs := ssautil.Packages(pkgs, ssa.GlobalDebug)
	for _, sp := range ssapkgs {
		if sp != nil {
			sp.Build()
		}
	}
	P := &Program{Repo: repo, Fset: fset, Pkgs: pkgs, SSA: prog, PkgByPath: map[string]*packages.Package{}, SSAPkgs: map[string]*ssa.Package{},
		Contracts: map[string]*FuncContract{}, FuncDecl: map[string]*ast.FuncDecl{}, FuncByKey: map[string]*ssa.Function{}, ContractFilePos: map[string]token.Pos{}}
	for i, p := range pkgs {
		P.PkgByPath[p.PkgPath] = p
		if ssapkgs[i] != nil {
			P.SSAPkgs[p.PkgPath] = ssapkgs[i]
		}
		for _, f := range p.Syntax {
			fname := fset.Position(f.Pos()).Filename
			for _, d := range f.Decls {
				if fd, ok := d.(*ast.FuncDecl); ok {
					if obj, ok := p.TypesInfo.Defs[fd.Name].(*types.Func); ok {
						P.FuncDecl[funcObjKey(obj)] = fd
					}
				}
			}
			if filepath.Base(fname) == contractFileName {
				P.ContractFiles = append(P.ContractFiles, fname)
				P.ContractFilePos[p.PkgPath] = f.Name.End()
				cs, err := parseContracts(fset, f, p.PkgPath)
				if err != nil {
					return nil, err
				}
				for _, c := range cs {
					if _, dup := P.Contracts[c.Key]; dup {
						return nil, fmt.Errorf("%s: duplicate contract for %s", fset.Position(c.Pos), c.Key)
					}
					P.Contracts[c.Key] = c
					P.ContractList = append(P.ContractList, c)
				}
			}
		}
	}
	// index ssa functions (including methods) of loaded packages
	for fn := range ssautil.AllFunctions(prog) {
		if fn.Object() == nil || fn.Origin() != nil && fn.Origin() != fn {
			continue
		}
		if fn.Synthetic != "" {
			continue // wrappers, thunks and bound-method closures share the method's object
		}
		if obj, ok := fn.Object().(*types.Func); ok {
			k := funcObjKey(obj)
			if old, ok := P.FuncByKey[k]; !ok || (old.Blocks == nil && fn.Blocks != nil) {
				P.FuncByKey[k] = fn
			}
		}
	}
	return P, nil
}

// funcObjKey gives the canonical contract key of a function object.
func funcObjKey(obj *types.Func) string {
	obj = obj.Origin()
	pkg := ""
	if obj.Pkg() != nil {
		pkg = obj.Pkg().Path()
	}
	sig := obj.Type().(*types.Signature)
	if recv := sig.Recv(); recv != nil {
		t := recv.Type()
		ptr := false
		if p, ok := t.(*types.Pointer); ok {
			ptr = true
			t = p.Elem()
		}
		name := "?"
		switch tt := t.(type) {
		case *types.Named:
			name = tt.Obj().Name()
		case *types.Alias:
			name = tt.Obj().Name()
		default:
			name = types.TypeString(t, nil)
		}
		if ptr {
			return fmt.Sprintf("%s.(*%s).%s", pkg, name, obj.Name())
		}
		return fmt.Sprintf("%s.(%s).%s", pkg, name, obj.Name())
	}
	return pkg + "." + obj.Name()
}

func funcKey(fn *ssa.Function) string {
	if fn.Origin() != nil {
		fn = fn.Origin()
	}
	if obj, ok := fn.Object().(*types.Func); ok {
		return funcObjKey(obj)
	}
	// anonymous / synthetic
	if fn.Parent() != nil {
		return funcKey(fn.Parent()) + "$" + fn.Name()
	}
	return fn.String()
}

// lookupFunc finds the ssa function for a types.Func (generic origin if generic).
func (P *Program) lookupFunc(obj *types.Func) *ssa.Function {
	if f, ok := P.FuncByKey[funcObjKey(obj)]; ok {
		return f
	}
	return P.SSA.FuncValue(obj.Origin())
}

func (P *Program) posStr(p token.Pos) string {
	if !p.IsValid() {
		return "-"
	}
	pos := P.Fset.Position(p)
	rel, err := filepath.Rel(P.Repo, pos.Filename)
	if err != nil {
		rel = pos.Filename
	}
	return fmt.Sprintf("%s:%d", rel, pos.Line)
}

// ---------- loops ----------

type Loop struct {
	Header  *ssa.BasicBlock
	Blocks  map[*ssa.BasicBlock]bool
	Tail    map[*ssa.BasicBlock]bool
	Parent  *Loop
	Ordinal int // 1-based source order, 0 if unmatched
	MinPos  token.Pos
	Stmt    ast.Stmt
}

type LoopInfo struct {
	Loops    []*Loop
	ByHeader map[*ssa.BasicBlock]*Loop
	Inner    map[*ssa.BasicBlock]*Loop // innermost loop containing block
}

func analyzeLoops(fn *ssa.Function, decl *ast.FuncDecl) *LoopInfo {
	li := &LoopInfo{ByHeader: map[*ssa.BasicBlock]*Loop{}, Inner: map[*ssa.BasicBlock]*Loop{}}
	for _, b := range fn.Blocks {
		for _, s := range b.Succs {
			if s.Dominates(b) { // back edge b -> s
				l := li.ByHeader[s]
				if l == nil {
					l = &Loop{Header: s, Blocks: map[*ssa.BasicBlock]bool{s: true}}
					li.ByHeader[s] = l
					li.Loops = append(li.Loops, l)
				}
				// natural loop: nodes reaching b without passing s
				var stack []*ssa.BasicBlock
				if !l.Blocks[b] {
					l.Blocks[b] = true
					stack = append(stack, b)
				}
				for len(stack) > 0 {
					x := stack[len(stack)-1]
					stack = stack[:len(stack)-1]
					for _, p := range x.Preds {
						if !l.Blocks[p] {
							l.Blocks[p] = true
							stack = append(stack, p)
						}
					}
				}
			}
		}
	}
	// nesting: parent = smallest strictly containing loop
	sort.Slice(li.Loops, func(i, j int) bool { return len(li.Loops[i].Blocks) > len(li.Loops[j].Blocks) })
	for i, l := range li.Loops {
		for j := i - 1; j >= 0; j-- {
			o := li.Loops[j]
			if o != l && o.Blocks[l.Header] && len(o.Blocks) > len(l.Blocks) {
				if l.Parent == nil || len(o.Blocks) < len(l.Parent.Blocks) {
					l.Parent = o
				}
			}
		}
	}
	for _, b := range fn.Blocks {
		var best *Loop
		for _, l := range li.Loops {
			if l.Blocks[b] && (best == nil || len(l.Blocks) < len(best.Blocks)) {
				best = l
			}
		}
		li.Inner[b] = best
	}
	// exit tails: blocks outside the loop all of whose predecessors are in the
	// loop or its tail (return blocks, the block after the loop). When a loop is
	// unrolled they are duplicated per iteration, so paths are not merged.
	for _, l := range li.Loops {
		l.Tail = map[*ssa.BasicBlock]bool{}
		for changed := true; changed; {
			changed = false
			for _, b := range fn.Blocks {
				if l.Blocks[b] || l.Tail[b] || len(b.Preds) == 0 || !l.Header.Dominates(b) {
					continue
				}
				all := true
				for _, p := range b.Preds {
					if !l.Blocks[p] && !l.Tail[p] {
						all = false
					}
				}
				if all {
					l.Tail[b] = true
					changed = true
				}
			}
		}
	}
	// source positions
	for _, l := range li.Loops {
		for b := range l.Blocks {
			for _, ins := range b.Instrs {
				if _, isDbg := ins.(*ssa.DebugRef); isDbg {
					continue
				}
				if _, isPhi := ins.(*ssa.Phi); isPhi {
					continue
				}
				if decl != nil && decl.Body != nil && (ins.Pos() < decl.Body.Lbrace || ins.Pos() > decl.Body.Rbrace) {
					continue
				}
				if p := ins.Pos(); p.IsValid() && (l.MinPos == token.NoPos || p < l.MinPos) {
					l.MinPos = p
				}
			}
		}
	}
	// match to AST loops
	if decl != nil && decl.Body != nil {
		var astLoops []ast.Stmt
		ast.Inspect(decl.Body, func(n ast.Node) bool {
			switch n.(type) {
			case *ast.FuncLit:
				return false
			case *ast.ForStmt, *ast.RangeStmt:
				astLoops = append(astLoops, n.(ast.Stmt))
			}
			return true
		})
		assigned := map[ast.Stmt]bool{}
		// innermost (smallest) SSA loop first; each takes the innermost
		// unassigned AST loop statement containing its first instruction.
		for li2 := len(li.Loops) - 1; li2 >= 0; li2-- {
			l := li.Loops[li2]
			if !l.MinPos.IsValid() {
				continue
			}
			for si := len(astLoops) - 1; si >= 0; si-- {
				s := astLoops[si]
				if assigned[s] {
					continue
				}
				if s.Pos() <= l.MinPos && l.MinPos < s.End() {
					l.Stmt = s
					assigned[s] = true
					break
				}
			}
		}
		for i, s := range astLoops {
			for _, l := range li.Loops {
				if l.Stmt == s {
					l.Ordinal = i + 1
				}
			}
		}
	}
	return li
}

package main

// exec.go: symbolic execution of go/ssa functions into SMT terms, with loops
// cut at invariants (or completely unrolled with an unwinding assertion),
// modular calls, and named proof obligations.

import (
	"fmt"
	"os"
	"regexp"
	"go/ast"
	"go/token"
	"go/types"
	"sort"
	"strings"

	"golang.org/x/tools/go/packages"
	"golang.org/x/tools/go/ssa"
)

type Obligation struct {
	Name   string
	Kind   string // ensures requires invariant-init invariant-preserve decreases bounds nil div assert frame unwind panic callback
	Func   string
	Pos    token.Pos
	Guard  *Term
	Cond   *Term
	NAssum int // assumptions Assums[:NAssum] are in force
	Assums []*Term // the assumption list of the function being verified (at emission time)
	Props  []string
	Text   string // source text of the clause, if any
	Frame  *Frame
	// result
	Status   string // discharged | failed | unknown | skipped
	Solver   string
	Seconds  float64
	Model    map[string]string
	Output   string
	SMTBytes int
	replayConfirmed bool
	replayFile string
}

type Exec struct {
	P       *Program
	c       *Ctx
	ti      *TypeInfo
	assumps []*Term
	obls    []*Obligation
	notes   map[string]bool // assumptions/abstractions relied upon
	oblNames map[string]int
	globals map[*ssa.Global]*Term
	nglobal int
	closures map[*Term]*closureInfo
	strLits map[string]*Term
	tier    string
	depth   int
	funcsUnderContract map[string]bool
	errs    []string
	constGlobalCache map[*ssa.Global]bool
	recDepth map[string]int
	recDone  map[*Term]bool
	absDivs  map[*Term]bool
	ptrTags map[string]int64
	ptrTagDone map[*Term]bool
	memBound   map[string]*Term // havoc-created memory symbol (or epoch prefix) -> allocation counter when it was created
	pendingSyms []string
	mapTags  map[string]int64
	entryAlloc *Term
	pendingSelfType types.Type
	iterators map[*Term]*iterInfo // iterator function values returned by functions with a `yields` clause
}

type closureInfo struct {
	fn       *ssa.Function
	bindings []*Term
}

type Frame struct {
	x        *Exec
	fn       *ssa.Function
	key      string
	contract *FuncContract
	decl     *ast.FuncDecl
	pkg      *packages.Package
	li       *LoopInfo
	top      bool // verifying this function (vs inlined)
	spec     bool // pure evaluation: no obligations
	params   []*Term
	bindings []*Term
	entry    *State
	olds     map[string]*Term
	oldTypes map[string]types.Type
	ghostTypes map[string]types.Type
	guard0   *Term
	parent   *Frame
	loopD0   map[string]*Term // decreases measure at header per loop-instance
	loopHdrState map[string]*State
	loopTargets map[string][]target
	compiled map[*Clause]*Compiled
	props    []string
	paramNames []string
	sig      *types.Signature
	selfType types.Type
	cbArgTypes map[string]types.Type
	cbRetType types.Type
	quiet    int
	specBase *State
	rets     []*retInfo
	targetCache map[*Clause][]*Clause
	site     ssa.Instruction // call instruction whose callrequires/callassumes clause is being evaluated (its locals are nameable)
}

func NewExec(P *Program, tier string) *Exec {
	c := NewCtx()
	c.initPrelude()
	x := &Exec{P: P, c: c, ti: newTypeInfo(c), notes: map[string]bool{}, oblNames: map[string]int{}, globals: map[*ssa.Global]*Term{},
		closures: map[*Term]*closureInfo{}, strLits: map[string]*Term{}, tier: tier, funcsUnderContract: map[string]bool{}, constGlobalCache: map[*ssa.Global]bool{}}
	c.symAxioms["iface_tag"] = nil
	return x
}

func (x *Exec) note(s string) { x.notes[s] = true }

func (x *Exec) assumeRaw(f *Term) {
	if f.isTrue() {
		return
	}
	if f.open {
		// definitional fact about a term under a quantifier: dropped (sound: fewer assumptions)
		x.note("definitional fact under a quantifier dropped")
		return
	}
	x.assumps = append(x.assumps, f)
}

func (x *Exec) assume(guard, f *Term) { x.assumeRaw(x.c.Implies(guard, f)) }

func (fr *Frame) oblige(kind, label string, pos token.Pos, guard, cond *Term, text string) {
	x := fr.x
	if fr.spec || fr.quiet > 0 {
		return
	}
	if cond.isTrue() || guard.isFalse() {
		// trivially discharged by construction; still counted
	}
	top := fr
	for top.parent != nil && !top.top {
		top = top.parent
	}
	base := fmt.Sprintf("%s#%s", shortKey(top.key), kind)
	if fr != top {
		base = fmt.Sprintf("%s#%s@%s", shortKey(top.key), kind, shortKey(fr.key))
	}
	if label != "" {
		base += "[" + label + "]"
	} else {
		x.oblNames[base]++
		base += fmt.Sprintf("[%d]", x.oblNames[base])
	}
	if n := x.oblNames["="+base]; n > 0 {
		x.oblNames["="+base]++
		base += fmt.Sprintf("~%d", n+1)
	} else {
		x.oblNames["="+base] = 1
	}
	o := &Obligation{Name: base, Kind: kind, Func: top.key, Pos: pos, Guard: guard, Cond: cond, NAssum: len(x.assumps), Assums: x.assumps, Props: top.props, Text: text, Frame: top}
	x.obls = append(x.obls, o)
}

func shortKey(k string) string {
	// strip module path prefix
	k = strings.TrimPrefix(k, "github.com/slackhq/nebula/")
	k = strings.TrimPrefix(k, "github.com/slackhq/")
	return k
}

// ---------- epochs for lazily created memory symbols ----------

type epoch struct {
	id   int
	g    *Term
	a, b *epoch
}

var epochCounter int

func newEpoch() *epoch { epochCounter++; return &epoch{id: epochCounter} }

// ---------- unfolded control-flow graph ----------

type unode struct {
	b     *ssa.BasicBlock
	ctx   string
	iters map[*Loop]int
	succs []*uedge
	in    []*uedge
	order int
	st    *State // out state
	guard *Term
}

type uedge struct {
	from, to *unode
	succIdx  int    // index in from.b.Succs
	kind     string // "" normal | "back" (cut loop back edge) | "unwind"
	loop     *Loop
	// filled at run time
	st    *State
	guard *Term
}

func ctxKey(iters map[*Loop]int) string {
	if len(iters) == 0 {
		return ""
	}
	var ks []string
	for l, i := range iters {
		ks = append(ks, fmt.Sprintf("%d:%d", l.Header.Index, i))
	}
	sort.Strings(ks)
	return strings.Join(ks, ";")
}

func (fr *Frame) loopUnroll(l *Loop) (int, bool) {
	if fr.contract != nil && l.Ordinal > 0 {
		if k, ok := fr.contract.LoopUnroll[l.Ordinal]; ok {
			return k, true
		}
	}
	return 0, false
}

func (fr *Frame) unfold() (*unode, []*unode) {
	nodes := map[string]*unode{}
	var get func(b *ssa.BasicBlock, iters map[*Loop]int) *unode
	var all []*unode
	get = func(b *ssa.BasicBlock, iters map[*Loop]int) *unode {
		k := fmt.Sprintf("%d|%s", b.Index, ctxKey(iters))
		if n, ok := nodes[k]; ok {
			return n
		}
		n := &unode{b: b, ctx: ctxKey(iters), iters: iters}
		nodes[k] = n
		all = append(all, n)
		for si, s := range b.Succs {
			e := &uedge{from: n, succIdx: si}
			// target iteration context
			ni := map[*Loop]int{}
			for l, i := range iters {
				if l.Blocks[s] {
					ni[l] = i
				} else if _, unrolled := fr.loopUnroll(l); unrolled && l.Tail[s] {
					ni[l] = i // exit tail of an unrolled loop: keep paths apart
				}
			}
			if l := fr.li.ByHeader[s]; l != nil {
				if l.Blocks[b] { // back edge
					if k, ok := fr.loopUnroll(l); ok {
						if iters[l]+1 < k {
							ni[l] = iters[l] + 1
						} else {
							e.kind, e.loop = "unwind", l
							n.succs = append(n.succs, e)
							continue
						}
					} else {
						e.kind, e.loop = "back", l
						n.succs = append(n.succs, e)
						continue
					}
				} else {
					ni[l] = 0
				}
			}
			e.to = get(s, ni)
			e.to.in = append(e.to.in, e)
			n.succs = append(n.succs, e)
		}
		return n
	}
	entry := get(fr.fn.Blocks[0], map[*Loop]int{})
	// topological order (reverse post-order DFS)
	visited := map[*unode]bool{}
	var order []*unode
	var dfs func(n *unode)
	dfs = func(n *unode) {
		visited[n] = true
		for _, e := range n.succs {
			if e.to != nil && !visited[e.to] {
				dfs(e.to)
			}
		}
		order = append(order, n)
	}
	dfs(entry)
	for i, j := 0, len(order)-1; i < j; i, j = i+1, j-1 {
		order[i], order[j] = order[j], order[i]
	}
	for i, n := range order {
		n.order = i
	}
	return entry, order
}

// merge states of incoming edges under their guards.
func (x *Exec) mergeStates(ins []*uedge) (*State, *Term) {
	c := x.c
	var live []*uedge
	for _, e := range ins {
		if e.st != nil && !e.guard.isFalse() {
			live = append(live, e)
		}
	}
	if len(live) == 0 {
		return nil, c.False()
	}
	if len(live) == 1 {
		return live[0].st.clone(), live[0].guard
	}
	res := live[0].st.clone()
	g := live[0].guard
	for _, e := range live[1:] {
		o := e.st
		// res = ite(e.guard, o, res)
		for k, v := range o.regs {
			if rv, ok := res.regs[k]; ok {
				if rv != v {
					if rv.sort == v.sort && rv.op != "tuple" && v.op != "tuple" {
						res.regs[k] = c.Ite(e.guard, v, rv)
					} else if rv.op == "tuple" && v.op == "tuple" && len(rv.args) == len(v.args) {
						args := make([]*Term, len(v.args))
						for i := range args {
							args[i] = c.Ite(e.guard, v.args[i], rv.args[i])
						}
						res.regs[k] = c.mk("tuple", "Tuple", 0, "", args, nil, nil)
					}
				}
			} else {
				res.regs[k] = v
			}
		}
		keys := map[string]bool{}
		for k := range o.mem {
			keys[k] = true
		}
		for k := range res.mem {
			keys[k] = true
		}
		for k := range keys {
			a := x.memByKey(o, k)
			b := x.memByKey(res, k)
			res.mem[k] = c.Ite(e.guard, a, b)
		}
		if o.ep != res.ep {
			res.ep = &epoch{g: e.guard, a: o.ep, b: res.ep}
		}
		if o.alloc != res.alloc {
			res.alloc = c.Ite(e.guard, o.alloc, res.alloc)
		}
		for k, v := range o.ghost {
			if rv, ok := res.ghost[k]; ok && rv != v {
				res.ghost[k] = c.Ite(e.guard, v, rv)
			} else if !ok {
				res.ghost[k] = v
			}
		}
		if len(o.defers) != len(res.defers) {
			x.note("abstracted: conditional defer (defer stacks differ at join)")
			if len(o.defers) > len(res.defers) {
				res.defers = o.defers
			}
		}
		g = c.Or(g, e.guard)
	}
	return res, g
}

// ---------- running a function ----------

type retInfo struct {
	st      *State
	guard   *Term
	results []*Term
	pos     token.Pos
}

// run executes fr.fn from state st under guard; returns merged exit.
func (fr *Frame) run(st *State, guard *Term) (results []*Term, out *State, outGuard *Term) {
	x := fr.x
	c := x.c
	if fr.fn.Blocks == nil {
		panic("run: function without body: " + fr.key)
	}
	if x.depth > 40 {
		panic("inlining depth exceeded at " + fr.key)
	}
	x.depth++
	defer func() { x.depth-- }()
	entry, order := fr.unfold()
	var rets []*retInfo
	entryEdge := &uedge{st: st, guard: guard}
	entry.in = append([]*uedge{entryEdge}, entry.in...)
	for _, n := range order {
		var ins []*uedge
		for _, e := range n.in {
			if e.st != nil {
				ins = append(ins, e)
			}
		}
		s, g := x.mergeStates(ins)
		if s == nil || g.isFalse() {
			continue
		}
		// phis
		var phiVals []*Term
		var phis []*ssa.Phi
		for _, ins := range n.b.Instrs {
			phi, ok := ins.(*ssa.Phi)
			if !ok {
				break
			}
			phis = append(phis, phi)
			var val *Term
			for _, e := range n.in {
				if e.st == nil || e.guard.isFalse() || e.from == nil {
					continue
				}
				pi := predIndex(n.b, e.from.b, e.succIdx)
				v := fr.value(e.st, phi.Edges[pi])
				if val == nil {
					val = v
				} else {
					val = x.iteVal(e.guard, v, val)
				}
			}
			if val == nil {
				val = x.ti.zero(phi.Type())
			}
			phiVals = append(phiVals, val)
		}
		for i, phi := range phis {
			s.regs[phi] = phiVals[i]
		}
		// cut-loop header processing
		if l := fr.li.ByHeader[n.b]; l != nil {
			if _, unrolled := fr.loopUnroll(l); !unrolled {
				fr.enterCutLoop(n, l, s, g, phis)
			} else if fr.contract != nil && len(fr.contract.LoopInv[l.Ordinal]) > 0 && !fr.spec {
				fr.unrolledCut(n, l, s, g, phis)
			}
		}
		// instructions
		alive := true
		for _, ins := range n.b.Instrs[len(phis):] {
			if !fr.instr(n, s, g, ins, &rets) {
				alive = false
				break
			}
		}
		_ = alive
	}
	// merge returns
	if len(rets) == 0 {
		return nil, st, c.False()
	}
	var edges []*uedge
	fr.rets = nil
	for _, r := range rets {
		if fr.top && !r.guard.isFalse() {
			fr.rets = append(fr.rets, &retInfo{st: r.st.clone(), guard: r.guard, results: r.results, pos: r.pos})
		}
		rs := r.st
		for i, v := range r.results {
			rs.regs[retKey(i)] = v
		}
		edges = append(edges, &uedge{st: rs, guard: r.guard})
	}
	out, outGuard = x.mergeStates(edges)
	n := fr.fn.Signature.Results().Len()
	for i := 0; i < n; i++ {
		results = append(results, out.regs[retKey(i)])
		delete(out.regs, retKey(i))
	}
	return results, out, outGuard
}

type retKey int

func predIndex(b, pred *ssa.BasicBlock, succIdx int) int {
	// pred.Succs[succIdx] == b; find matching index in b.Preds accounting for duplicate edges
	nth := 0
	for i := 0; i < succIdx; i++ {
		if pred.Succs[i] == b {
			nth++
		}
	}
	for i, p := range b.Preds {
		if p == pred {
			if nth == 0 {
				return i
			}
			nth--
		}
	}
	panic("predIndex: edge not found")
}

func (x *Exec) iteVal(g, a, b *Term) *Term {
	if a.op == "tuple" && b.op == "tuple" {
		args := make([]*Term, len(a.args))
		for i := range args {
			args[i] = x.iteVal(g, a.args[i], b.args[i])
		}
		return x.c.mk("tuple", "Tuple", 0, "", args, nil, nil)
	}
	return x.c.Ite(g, a, b)
}

// flow sends state along the successor edge idx of node n under cond.
func (fr *Frame) flow(n *unode, idx int, s *State, g *Term) {
	e := n.succs[idx]
	switch e.kind {
	case "":
		e.st, e.guard = s, g
	case "back":
		fr.backEdge(n, e, s, g)
	case "unwind":
		fr.oblige("unwind", fmt.Sprintf("loop%d", e.loop.Ordinal), e.loop.MinPos, g, fr.x.c.False(),
			fmt.Sprintf("loop %d terminates within the declared %d unrolled iterations", e.loop.Ordinal, fr.contract.LoopUnroll[e.loop.Ordinal]))
	}
}

// ---------- values ----------

func (fr *Frame) value(st *State, v ssa.Value) *Term {
	x := fr.x
	c := x.c
	switch v := v.(type) {
	case *ssa.Const:
		return x.constTerm(v)
	case *ssa.Global:
		return x.globalAddr(v)
	case *ssa.Function:
		t := c.Var("fn_"+sanitize(funcKey(v)), SRef)
		if x.closures[t] == nil {
			x.closures[t] = &closureInfo{fn: v}
		}
		return t
	case *ssa.FreeVar:
		for i, fv := range fr.fn.FreeVars {
			if fv == v {
				if i < len(fr.bindings) {
					return fr.bindings[i]
				}
			}
		}
		panic("unbound free variable " + v.Name())
	case *ssa.Builtin:
		return c.Var("builtin_"+v.Name(), SRef)
	}
	if t, ok := st.regs[v]; ok {
		return t
	}
	panic(fmt.Sprintf("value: no binding for %s (%T) in %s", v.Name(), v, fr.key))
}

func (x *Exec) globalAddr(g *ssa.Global) *Term {
	if t, ok := x.globals[g]; ok {
		return t
	}
	x.nglobal++
	t := x.c.Obj(x.c.Int(int64(-x.nglobal)))
	x.globals[g] = t
	return t
}

func (x *Exec) strLit(s string) *Term {
	c := x.c
	if s == "" {
		return c.emptyStr()
	}
	if t, ok := x.strLits[s]; ok {
		return t
	}
	name := fmt.Sprintf("strlit%d_%s", len(x.strLits), sanitize(trunc(s, 16)))
	t := c.Var(name, SStr)
	x.strLits[s] = t
	var ax []*Term
	ax = append(ax, c.Eq(c.StrLen(t), c.BV(uint64(len(s)), 64)))
	if len(s) <= 40 {
		for i := 0; i < len(s); i++ {
			ax = append(ax, c.Eq(c.StrAt(t, c.BV(uint64(i), 64)), c.BV(uint64(s[i]), 8)))
		}
	}
	c.symAxioms[name] = ax
	c.distinct["strlit"] = append(c.distinct["strlit"], name)
	return t
}

func trunc(s string, n int) string {
	if len(s) > n {
		return s[:n]
	}
	return s
}

func (x *Exec) constTerm(k *ssa.Const) *Term {
	return x.constOfType(k.Value, k.Type())
}

// ---------- cut loops ----------

type target struct {
	kind string // cell | elems | sort (whole leaf sort) | ghost | all
	sort string // leaf sort key in st.mem (or map key)
	addr *Term  // cell address or array base ref
	lo, hi *Term // optional element range (BV64 indices relative to base), nil = all
	name string // ghost
	fld  int    // elemfield: field index within the element struct
}

func (fr *Frame) loopKey(n *unode, l *Loop) string {
	return fmt.Sprintf("%d|%s", l.Header.Index, n.ctx)
}

// enterCutLoop: assert invariant on entry, havoc, assume invariant.
func (fr *Frame) enterCutLoop(n *unode, l *Loop, s *State, g *Term, phis []*ssa.Phi) {
	x := fr.x
	c := x.c
	var invs []*Clause
	var dec *Clause
	if fr.contract != nil && l.Ordinal > 0 {
		invs = fr.contract.LoopInv[l.Ordinal]
		dec = fr.contract.LoopDec[l.Ordinal]
	}
	if fr.spec {
		panic(fmt.Sprintf("loop in pure/spec function %s (loops need 'unroll' there)", fr.key))
	}
	// a `for k, v := range someMap` loop: hidden count of the entries visited so far (`rangeindex` in its clauses)
	mapIter := mapRangeKey(l.Header)
	if mapIter != "" {
		if _, ok := s.ghost[mapIter]; !ok {
			s.ghost[mapIter] = c.BV(0, 64)
		}
	}
	// 1. invariant holds on entry (loop lemmas are available for that, instantiated at the entry state)
	if fr.contract != nil && l.Ordinal > 0 && len(invs) > 0 {
		for _, lm := range fr.contract.LoopLemmas[l.Ordinal] {
			if lm.Label == "init" { // `loop N lemma[init] F(args)`: also instantiated at the entry state
				fr.applyLemma(lm, s, g, l, nil)
			}
		}
	}
	for i, inv := range invs {
		t := fr.evalClauseAt(inv, s, l, nil)
		fr.oblige("invariant-init", loopLabel(l, inv, i), inv.Pos, g, t, inv.Text)
	}
	autos := fr.autoInvariants(l, phis)
	for i, a := range autos {
		fr.oblige("invariant-init", fmt.Sprintf("loop%d.auto%d", l.Ordinal, i+1), l.MinPos, g, a(s), "range index stays in [-1, len)")
	}
	defer func() {
		for _, a := range autos {
			x.assume(g, a(s))
		}
	}()
	pre := s.clone()
	// 2. havoc
	var targets []target
	explicit := false
	if fr.contract != nil && l.Ordinal > 0 && fr.contract.LoopAssigns[l.Ordinal] != nil {
		explicit = true
		targets = fr.evalTargets(fr.contract.LoopAssigns[l.Ordinal], s, l, nil)
	} else {
		targets = fr.loopWriteSet(l)
	}
	for _, phi := range phis {
		s.regs[phi] = x.freshOf("loop_"+phi.Comment, phi.Type())
		x.assumeWF(g, s.regs[phi], phi.Type(), s)
	}
	fr.havocTargets(s, pre, targets, g)
	if mapIter != "" {
		s.ghost[mapIter] = c.Fresh("loop_mapiter", SBV(64))
	}
	// ghost counters (effect counters of callee contracts, atcall counters) may be incremented by the body: they are
	// arbitrary at the loop head, like everything the loop writes; invariants say what is known about them
	counters := map[string]bool{} // ghosts declared with an initial value; rigid ghosts (no initial value) never change
	for top := fr; top != nil; top = top.parent {
		if top.contract != nil {
			for _, gcl := range top.contract.Ghosts {
				if gcl.Text != "" {
					counters[gcl.Ghost] = true
				}
			}
		}
		if top.top {
			break
		}
	}
	for _, name := range sortedKeys(s.ghost) {
		if v := s.ghost[name]; counters[name] && bvWidth(v.sort) > 0 {
			s.ghost[name] = c.Fresh("loop_ghost_"+name, v.sort)
		}
	}
	if loopAllocates(l) {
		na := c.Fresh("alloc", SInt)
		x.assume(g, c.IntCmp(">=", na, pre.alloc))
		s.alloc = na
	}
	x.bindHavocBound(s.alloc)
	// 3. assume invariant
	for _, inv := range invs {
		t := fr.evalClauseAt(inv, s, l, nil)
		x.assume(g, t)
	}
	if fr.contract != nil && l.Ordinal > 0 {
		for _, lm := range fr.contract.LoopLemmas[l.Ordinal] {
			fr.applyLemma(lm, s, g, l, nil)
		}
	}
	key := fr.loopKey(n, l)
	if fr.loopHdrState == nil {
		fr.loopHdrState = map[string]*State{}
		fr.loopD0 = map[string]*Term{}
		fr.loopTargets = map[string][]target{}
	}
	fr.loopHdrState[key] = s.clone()
	if explicit {
		fr.loopTargets[key] = targets
	}
	if dec != nil {
		fr.loopD0[key] = fr.evalClauseAt(dec, s, l, nil)
	} else {
		x.note(fmt.Sprintf("termination of loop %d in %s not claimed (no decreases clause)", l.Ordinal, shortKey(fr.key)))
	}
}

// unrolledCut: an unrolled loop that also has invariants is cut at every
// unrolled header copy: the invariant is proved for the state arriving there
// (iteration number `loopiter` is the concrete copy index), then the loop
// variables are forgotten and only the invariant is assumed. Each step of the
// unrolling is thus proved from the invariant alone, with a concrete
// iteration number (useful for fuel-indexed specification functions).
func (fr *Frame) unrolledCut(n *unode, l *Loop, s *State, g *Term, phis []*ssa.Phi) {
	x := fr.x
	c := x.c
	j := n.iters[l]
	extra := map[string]*Term{"loopiter": c.BV(uint64(j), 64)}
	invs := fr.contract.LoopInv[l.Ordinal]
	kind := "invariant-init"
	if j > 0 {
		kind = "invariant-preserve"
	}
	for i, inv := range invs {
		t := fr.evalClauseAt(inv, s, l, extra)
		fr.oblige(kind, fmt.Sprintf("%s.iter%d", loopLabel(l, inv, i), j), inv.Pos, g, t, inv.Text)
	}
	pre := s.clone()
	for _, phi := range phis {
		if v := s.regs[phi]; v.isLit() {
			continue // concrete loop counter
		}
		s.regs[phi] = x.freshOf(fmt.Sprintf("loop_%s_it%d", phi.Comment, j), phi.Type())
		x.assumeWF(g, s.regs[phi], phi.Type(), s)
	}
	fr.havocTargets(s, pre, fr.loopWriteSet(l), g)
	x.bindHavocBound(s.alloc)
	for _, inv := range invs {
		x.assume(g, fr.evalClauseAt(inv, s, l, extra))
	}
}

// rangedSlice: the slice value a `for ... range slice` loop iterates over (the operand of the len() call that bounds
// the hidden index), nil for other loops.
func rangedSlice(hdr *ssa.BasicBlock) ssa.Value {
	for _, ins := range hdr.Instrs {
		b, ok := ins.(*ssa.BinOp)
		if !ok || b.Op != token.LSS {
			continue
		}
		inc, ok := b.X.(*ssa.BinOp)
		if !ok || inc.Op != token.ADD {
			continue
		}
		if phi, ok := inc.X.(*ssa.Phi); !ok || phi.Comment != "rangeindex" {
			continue
		}
		if call, ok := b.Y.(*ssa.Call); ok {
			if bi, ok := call.Call.Value.(*ssa.Builtin); ok && bi.Name() == "len" && len(call.Call.Args) == 1 {
				if _, ok := call.Call.Args[0].Type().Underlying().(*types.Slice); ok {
					return call.Call.Args[0]
				}
			}
		}
	}
	return nil
}

// autoInvariants: invariants the engine supplies (and checks like any other)
// for compiler-generated loop variables that no contract can name: the hidden
// index of `for ... range slice` stays in [-1, len).
// mapRangeKey: for the header block of a `for ... range someMap` loop, the key under which the state carries the
// hidden number of entries visited so far ("" for other blocks).
func mapRangeKey(hdr *ssa.BasicBlock) string {
	for _, ins := range hdr.Instrs {
		if nx, ok := ins.(*ssa.Next); ok && !nx.IsString {
			if rng, ok := nx.Iter.(*ssa.Range); ok {
				if _, isMap := types.Unalias(rng.X.Type()).Underlying().(*types.Map); isMap {
					return fmt.Sprintf("$mapiter|%d", hdr.Index)
				}
			}
		}
	}
	return ""
}

func (fr *Frame) autoInvariants(l *Loop, phis []*ssa.Phi) []func(*State) *Term {
	c := fr.x.c
	var out []func(*State) *Term
	if key := mapRangeKey(l.Header); key != "" {
		// a map has at most 2^56 entries and a range visits each at most once
		out = append(out, func(s *State) *Term {
			k, ok := s.ghost[key]
			if !ok {
				return c.True()
			}
			return c.And(c.BVCmp("bvsle", c.BV(0, 64), k), c.BVCmp("bvsle", k, c.BV(1<<56, 64)))
		})
	}
	for _, phi := range phis {
		if phi.Comment != "rangeindex" {
			continue
		}
		// find  t = phi + 1 ; t < n  in the header
		var lim ssa.Value
		for _, ins := range l.Header.Instrs {
			if b, ok := ins.(*ssa.BinOp); ok && b.Op == token.LSS {
				if inc, ok := b.X.(*ssa.BinOp); ok && inc.Op == token.ADD && inc.X == phi {
					lim = b.Y
				}
			}
		}
		if lim == nil {
			continue
		}
		phi, lim := phi, lim
		out = append(out, func(s *State) *Term {
			p := s.regs[phi]
			n := fr.value(s, lim)
			m1 := c.BV(^uint64(0), 64)
			return c.And(c.BVCmp("bvsge", p, m1), c.Or(c.Eq(p, m1), c.BVCmp("bvslt", p, n)))
		})
	}
	return out
}

func loopLabel(l *Loop, cl *Clause, i int) string {
	if cl.Label != "" {
		return fmt.Sprintf("loop%d.%s", l.Ordinal, cl.Label)
	}
	return fmt.Sprintf("loop%d.%d", l.Ordinal, i+1)
}

func loopAllocates(l *Loop) bool {
	for b := range l.Blocks {
		for _, ins := range b.Instrs {
			switch ins.(type) {
			case *ssa.Alloc, *ssa.MakeSlice, *ssa.MakeMap, *ssa.MakeClosure, *ssa.MakeChan, *ssa.Call:
				return true
			}
		}
	}
	return false
}

func (fr *Frame) backEdge(n *unode, e *uedge, s *State, g *Term) {
	x := fr.x
	c := x.c
	l := e.loop
	hdr := l.Header
	// the header node instance: same ctx restricted to loops containing header
	iters := map[*Loop]int{}
	for ll, i := range n.iters {
		if ll.Blocks[hdr] {
			iters[ll] = i
		}
	}
	key := fmt.Sprintf("%d|%s", hdr.Index, ctxKey(iters))
	hs := fr.loopHdrState[key]
	if hs == nil {
		// header unreachable
		return
	}
	ts := s.clone()
	pi := predIndex(hdr, n.b, e.succIdx)
	var vals []*Term
	var phis []*ssa.Phi
	for _, ins := range hdr.Instrs {
		phi, ok := ins.(*ssa.Phi)
		if !ok {
			break
		}
		phis = append(phis, phi)
		vals = append(vals, fr.value(s, phi.Edges[pi]))
	}
	for i, phi := range phis {
		ts.regs[phi] = vals[i]
	}
	var invs []*Clause
	var dec *Clause
	if fr.contract != nil && l.Ordinal > 0 {
		invs = fr.contract.LoopInv[l.Ordinal]
		dec = fr.contract.LoopDec[l.Ordinal]
	}
	if fr.contract != nil && l.Ordinal > 0 {
		for _, lm := range fr.contract.LoopLemmas[l.Ordinal] {
			fr.applyLemma(lm, ts, g, l, nil)
		}
	}
	for i, inv := range invs {
		t := fr.evalClauseAt(inv, ts, l, nil)
		fr.oblige("invariant-preserve", loopLabel(l, inv, i), inv.Pos, g, t, inv.Text)
	}
	for i, a := range fr.autoInvariants(l, phis) {
		fr.oblige("invariant-preserve", fmt.Sprintf("loop%d.auto%d", l.Ordinal, i+1), l.MinPos, g, a(ts), "range index stays in [-1, len)")
	}
	if dec != nil {
		d0 := fr.loopD0[key]
		d1 := fr.evalClauseAt(dec, ts, l, nil)
		var cond *Term
		if bvWidth(d0.sort) > 0 {
			comp := fr.compile(dec, l, nil)
			if isSignedType(comp.resultType) {
				cond = c.And(c.BVCmp("bvsge", d0, c.BV(0, bvWidth(d0.sort))), c.BVCmp("bvslt", d1, d0))
			} else {
				cond = c.BVCmp("bvult", d1, d0)
			}
		} else {
			cond = c.And(c.IntCmp(">=", d0, c.Int(0)), c.IntCmp("<", d1, d0))
		}
		fr.oblige("decreases", fmt.Sprintf("loop%d", l.Ordinal), dec.Pos, g, cond, dec.Text)
	}
	if tg, ok := fr.loopTargets[key]; ok {
		fr.checkFrame(fmt.Sprintf("loop%d", l.Ordinal), l.MinPos, hs, ts, tg, g, "loop assigns")
	}
}

// loopWriteSet: conservative syntactic write set of a loop (whole leaf sorts).
func (fr *Frame) loopWriteSet(l *Loop) []target {
	x := fr.x
	sorts := map[string]bool{}
	all := false
	ghosts := map[string]bool{}
	var blocks []*ssa.BasicBlock
	for b := range l.Blocks {
		blocks = append(blocks, b)
	}
	sort.Slice(blocks, func(i, j int) bool { return blocks[i].Index < blocks[j].Index })
	for _, b := range blocks {
		for _, ins := range b.Instrs {
			x.instrWrites(fr, ins, sorts, ghosts, &all, 0)
		}
	}
	var ts []target
	if all {
		return []target{{kind: "all"}}
	}
	for _, s := range sortedKeys(sorts) {
		ts = append(ts, target{kind: "sort", sort: s})
	}
	for _, g := range sortedKeys(ghosts) {
		ts = append(ts, target{kind: "ghost", name: g})
	}
	return ts
}

// leafSorts of a Go type (memory keys touched when storing a value of it).
func (x *Exec) leafSorts(t types.Type, out map[string]bool) {
	if x.ti.isLeaf(t) {
		out[x.ti.sortOf(t)] = true
		return
	}
	switch u := types.Unalias(t).Underlying().(type) {
	case *types.Struct:
		for i := 0; i < u.NumFields(); i++ {
			x.leafSorts(u.Field(i).Type(), out)
		}
	case *types.Array:
		x.leafSorts(u.Elem(), out)
	}
}

func mapKeys(x *Exec, mt *types.Map) (string, string) {
	return x.ti.sortOf(mt.Key()), x.ti.sortOf(mt.Elem())
}

// instrWrites accumulates the memory an instruction may write.
func (x *Exec) instrWrites(fr *Frame, ins ssa.Instruction, sorts, ghosts map[string]bool, all *bool, depth int) {
	switch ins := ins.(type) {
	case *ssa.Store:
		x.leafSorts(ins.Val.Type(), sorts)
	case *ssa.MapUpdate:
		mt := ins.Map.Type().Underlying().(*types.Map)
		ks, vs := mapKeys(x, mt)
		sorts["mapP|"+ks] = true
		sorts["mapV|"+ks+"|"+vs] = true
	case *ssa.Alloc, *ssa.MakeSlice:
		// zero-initialisation writes only fresh memory: handled by alloc counter
		var t types.Type
		if a, ok := ins.(*ssa.Alloc); ok {
			t = a.Type().Underlying().(*types.Pointer).Elem()
		} else {
			t = ins.(*ssa.MakeSlice).Type().Underlying().(*types.Slice).Elem()
		}
		x.leafSorts(t, sorts)
	case *ssa.MakeMap:
		mt := ins.Type().Underlying().(*types.Map)
		ks, vs := mapKeys(x, mt)
		sorts["mapP|"+ks] = true
		sorts["mapV|"+ks+"|"+vs] = true
	case *ssa.Defer:
		x.callWrites(fr, &ins.Call, sorts, ghosts, all, depth)
	case *ssa.Go:
		*all = true
	case *ssa.Call:
		x.callWrites(fr, &ins.Call, sorts, ghosts, all, depth)
	case *ssa.Send, *ssa.Select:
		*all = true
	}
}

func (x *Exec) callWrites(fr *Frame, call *ssa.CallCommon, sorts, ghosts map[string]bool, all *bool, depth int) {
	if b, ok := call.Value.(*ssa.Builtin); ok {
		switch b.Name() {
		case "append", "copy", "clear":
			if len(call.Args) > 0 {
				switch u := call.Args[0].Type().Underlying().(type) {
				case *types.Slice:
					x.leafSorts(u.Elem(), sorts)
				case *types.Map:
					ks, vs := mapKeys(x, u)
					sorts["mapP|"+ks] = true
					sorts["mapV|"+ks+"|"+vs] = true
				}
			}
		case "delete":
			mt := call.Args[0].Type().Underlying().(*types.Map)
			ks, vs := mapKeys(x, mt)
			sorts["mapP|"+ks] = true
			sorts["mapV|"+ks+"|"+vs] = true
		}
		return
	}
	if callee := call.StaticCallee(); callee != nil {
		key := funcKey(callee)
		if m := lookupModel(key); m != nil {
			if m.writes != nil {
				m.writes(x, call, sorts)
			}
			return
		}
		if isEffectFree(key) {
			return
		}
		if fc := x.P.Contracts[key]; fc != nil && !fc.Inline {
			if fc.Pure {
				return
			}
			if fc.HasAssigns {
				// sorts named by assigns clauses: evaluate syntactically (types of lvalues)
				cf := x.newFrame(callee, fr)
				for _, cl := range fc.Assigns {
					cf.assignSorts(cl, sorts, ghosts, all)
				}
				return
			}
			*all = true
			return
		}
		if callee.Blocks != nil && depth < 6 {
			if fc := x.P.Contracts[key]; fc != nil && fc.Inline || callee.Parent() != nil {
				for _, b := range callee.Blocks {
					for _, i2 := range b.Instrs {
						x.instrWrites(fr, i2, sorts, ghosts, all, depth+1)
					}
				}
				return
			}
		}
		*all = true
		return
	}
	if call.IsInvoke() {
		key := invokeKey(call)
		if isEffectFree(key) {
			return
		}
		if fc := x.P.Contracts[key]; fc != nil && fc.HasAssigns {
			cf := &Frame{x: x, key: key, contract: fc, pkg: x.P.PkgByPath[fc.PkgPath], parent: fr}
			for _, cl := range fc.Assigns {
				cf.assignSorts(cl, sorts, ghosts, all)
			}
			return
		}
		*all = true
		return
	}
	// function value: callback contract?
	if p, ok := call.Value.(*ssa.Parameter); ok && fr != nil && fr.contract != nil {
		if cb := fr.contract.Callbacks[p.Name()]; cb != nil {
			for _, u := range cb.Updates {
				ghosts[u.Ghost] = true
			}
			return
		}
	}
	if mc, ok := call.Value.(*ssa.MakeClosure); ok && depth < 6 {
		fn := mc.Fn.(*ssa.Function)
		for _, b := range fn.Blocks {
			for _, i2 := range b.Instrs {
				x.instrWrites(fr, i2, sorts, ghosts, all, depth+1)
			}
		}
		return
	}
	*all = true
}

func invokeKey(call *ssa.CallCommon) string {
	t := call.Value.Type()
	name := types.TypeString(t, nil)
	if n, ok := types.Unalias(t).(*types.Named); ok && n.Obj().Pkg() != nil {
		name = n.Obj().Pkg().Path() + ".(" + n.Obj().Name() + ")"
	} else if n, ok := types.Unalias(t).(*types.Named); ok {
		name = "(" + n.Obj().Name() + ")" // universe: error
	}
	return name + "." + call.Method.Name()
}

// havocTargets replaces the targeted memory in s by fresh values, framed against pre.
func (fr *Frame) havocTargets(s, pre *State, targets []target, g *Term) {
	x := fr.x
	c := x.c
	bySort := map[string][]target{}
	for _, t := range targets {
		switch t.kind {
		case "all":
			s.mem = map[string]*Term{}
			s.ep = newEpoch()
			x.pendingSyms = append(x.pendingSyms, fmt.Sprintf("mem%d", s.ep.id))
			// ghost state is changed by contracts only; unknown code cannot touch it.
			// The ghost wall clock may have advanced (time only moves forward).
			if old, ok := s.ghost["$clock"]; ok {
				s.ghost["$clock"] = c.Fresh("ghost_clock", old.sort)
				x.assume(g, c.BVCmp("bvsge", s.ghost["$clock"], old))
			}
			x.note("havoc of the whole heap at a call or loop without a frame in " + shortKey(fr.key))
			return
		case "ghost":
			if old, ok := s.ghost[t.name]; ok {
				s.ghost[t.name] = c.Fresh("ghost_"+t.name, old.sort)
			}
		default:
			bySort[t.sort] = append(bySort[t.sort], t)
		}
	}
	for _, k := range sortedKeys(bySort) {
		ts := bySort[k]
		whole := false
		cellsOnly := true
		for _, t := range ts {
			if t.kind == "sort" {
				whole = true
			}
			if t.kind != "cell" {
				cellsOnly = false
			}
		}
		old := x.memByKey(s, k)
		if whole {
			s.mem[k] = c.Fresh("mem_"+k, old.sort)
			x.pendingSyms = append(x.pendingSyms, s.mem[k].name)
			continue
		}
		if cellsOnly {
			m := old
			for _, t := range ts {
				_, es, _ := arrParts(old.sort)
				m = c.Store(m, t.addr, c.Fresh("hv_"+k, es))
			}
			s.mem[k] = m
			continue
		}
		nm := c.Fresh("mem_"+k, old.sort)
		x.pendingSyms = append(x.pendingSyms, nm.name)
		r := c.BVar("r", SRef)
		in := fr.inTargets(r, ts)
		x.assume(g, c.Forall([]*Term{r}, c.Or(in, c.IntCmp(">=", c.RRoot(r), pre.alloc), c.Eq(c.Select(nm, r), c.Select(old, r))), c.Select(nm, r)))
		s.mem[k] = nm
	}
}

// inTargets: membership of address r in a target list (same sort).
func (fr *Frame) inTargets(r *Term, ts []target) *Term {
	x := fr.x
	c := x.c
	var ds []*Term
	for _, t := range ts {
		switch t.kind {
		case "cell":
			ds = append(ds, c.Eq(r, t.addr))
		case "elems":
			d := x.isElemOf(r, t.addr)
			if t.lo != nil {
				idx := c.Sel("pelem_idx", SBV(64), c.RPath(r))
				d = c.And(d, c.BVCmp("bvule", t.lo, idx), c.BVCmp("bvult", idx, t.hi))
			}
			ds = append(ds, d)
		case "elemfield":
			// r == &base[idx].field  for some idx in [lo, hi)
			p := c.RPath(r)
			pp := c.Sel("pfld_par", "Path", p)
			idx := c.Sel("pelem_idx", SBV(64), pp)
			ds = append(ds, c.And(c.Eq(c.RRoot(r), c.RRoot(t.addr)), c.App("is-pfld", SBool, p), c.Eq(c.Sel("pfld_idx", SInt, p), c.Int(int64(t.fld))),
				c.App("is-pelem", SBool, pp), c.Eq(c.Sel("pelem_par", "Path", pp), c.RPath(t.addr)), c.BVCmp("bvule", t.lo, idx), c.BVCmp("bvult", idx, t.hi)))
		case "sort":
			return c.True()
		}
	}
	return c.Or(ds...)
}

// checkFrame: memory outside targets is unchanged between states a and b.
func (fr *Frame) checkFrame(label string, pos token.Pos, a, b *State, targets []target, g *Term, what string) {
	x := fr.x
	c := x.c
	bySort := map[string][]target{}
	ghostOK := map[string]bool{}
	for _, t := range targets {
		if t.kind == "all" {
			return
		}
		if t.kind == "ghost" {
			ghostOK[t.name] = true
			continue
		}
		bySort[t.sort] = append(bySort[t.sort], t)
	}
	keys := map[string]bool{}
	for k := range a.mem {
		keys[k] = true
	}
	for k := range b.mem {
		keys[k] = true
	}
	var conds []*Term
	for _, k := range sortedKeys(keys) {
		ma, mb := x.memByKey(a, k), x.memByKey(b, k)
		if ma == mb {
			continue
		}
		r := c.Fresh("frame_r", SRef)
		in := fr.inTargets(r, bySort[k])
		conds = append(conds, c.Or(in, c.IntCmp(">=", c.RRoot(r), a.alloc), c.Eq(c.Select(ma, r), c.Select(mb, r))))
	}
	if a.ep != b.ep {
		conds = append(conds, c.False())
	}
	fr.oblige("frame", label, pos, g, c.And(conds...), what)
}

func (x *Exec) memByKey(st *State, k string) *Term {
	if m, ok := st.mem[k]; ok {
		return m
	}
	return x.memFromEpoch(st, st.ep, k)
}

func (x *Exec) memFromEpoch(st *State, e *epoch, k string) *Term {
	srt := memSortOfKey(k)
	var rec func(e *epoch) *Term
	rec = func(e *epoch) *Term {
		if e == nil {
			return x.c.Var("mem0_"+sanitize(k), srt)
		}
		if e.a != nil {
			return x.c.Ite(e.g, rec(e.a), rec(e.b))
		}
		return x.c.Var(fmt.Sprintf("mem%d_%s", e.id, sanitize(k)), srt)
	}
	m := rec(e)
	st.mem[k] = m
	return m
}

func memSortOfKey(k string) string {
	if strings.HasPrefix(k, "mapP|") {
		return SArr(SRef, SArr(k[5:], SBool))
	}
	if strings.HasPrefix(k, "mapV|") {
		rest := k[5:]
		// split on '|' at depth 0
		depth := 0
		for i := 0; i < len(rest); i++ {
			switch rest[i] {
			case '(':
				depth++
			case ')':
				depth--
			case '|':
				if depth == 0 {
					return SArr(SRef, SArr(rest[:i], rest[i+1:]))
				}
			}
		}
	}
	return SArr(SRef, k)
}

// freshOf: fresh symbolic value of a Go type.
func (x *Exec) freshOf(prefix string, t types.Type) *Term {
	if tup, ok := t.(*types.Tuple); ok {
		var args []*Term
		for i := 0; i < tup.Len(); i++ {
			args = append(args, x.freshOf(fmt.Sprintf("%s_%d", prefix, i), tup.At(i).Type()))
		}
		return x.c.mk("tuple", "Tuple", 0, "", args, nil, nil)
	}
	return x.c.Fresh(prefix, x.ti.sortOf(t))
}

// addrWF: representation invariant of netip.Addr (zero value all-zero; IPv4 stored as ::ffff:a.b.c.d).
func (x *Exec) addrWF(a *Term) *Term {
	c := x.c
	return c.And(
		c.Implies(c.Eq(c.addrZ(a), c.BV(z0, 8)), c.And(c.Eq(c.addrHi(a), c.BV(0, 64)), c.Eq(c.addrLo(a), c.BV(0, 64)))),
		c.Implies(c.addrIs4(a), c.And(c.Eq(c.addrHi(a), c.BV(0, 64)), c.Eq(c.BVBin("bvlshr", c.addrLo(a), c.BV(32, 64)), c.BV(0xffff, 64)))))
}

// assumeWF: type invariants of a symbolic value (slice header sanity, reference allocatedness).
func (x *Exec) assumeWF(g *Term, v *Term, t types.Type, st *State) {
	c := x.c
	// A reference read from memory that has not been written since the function
	// was entered existed at entry: its object is older than every object this
	// function allocates.
	// (Only for cells of objects that themselves existed then: a memory symbol also stands for the initial contents
	// of objects allocated later — by a callee under contract, say — and those may hold newer references.)
	bound := st.alloc
	var cellOld *Term // nil: unconditional
	if x.entryAlloc != nil {
		base := v
		var cell *Term
		for base.op == "select" {
			cell = base.args[1]
			base = base.args[0]
		}
		if base.op == "var" && (strings.HasPrefix(base.name, "mem0_")) && base != v {
			bound = x.entryAlloc
		} else if base.op == "var" && base != v {
			// memory created by a havoc (call, loop cut): what it holds existed when the havoc ended
			key := base.name
			if m := epochNameRe.FindStringSubmatch(key); m != nil {
				key = m[1]
			}
			if b, ok := x.memBound[key]; ok {
				bound = b
			}
		}
		if bound != st.alloc && cell != nil && cell.sort == SRef && !cell.open {
			cellOld = c.IntCmp("<", c.RRoot(cell), bound)
		}
	}
	older := func(r *Term) *Term {
		if cellOld == nil {
			return c.IntCmp("<", c.RRoot(r), bound)
		}
		return c.And(c.IntCmp("<", c.RRoot(r), st.alloc), c.Implies(cellOld, c.IntCmp("<", c.RRoot(r), bound)))
	}
	switch v.sort {
	case SSlice:
		lim := c.BV(1<<56, 64)
		x.assume(g, c.And(c.BVCmp("bvule", c.SlLen(v), c.SlCap(v)), c.BVCmp("bvule", c.SlCap(v), lim), c.BVCmp("bvule", c.SlOff(v), lim),
			older(c.SlPtr(v)),
			c.Implies(c.Eq(c.SlPtr(v), c.Null()), c.Eq(c.SlCap(v), c.BV(0, 64)))))
	case SRef:
		x.assume(g, older(v))
		x.ptrTag(g, v, t)
	case SStr:
		x.assume(g, c.BVCmp("bvule", c.StrLen(v), c.BV(1<<56, 64)))
	case "Addr":
		x.assume(g, x.addrWF(v))
	case "AddrPort":
		x.assume(g, x.addrWF(c.Sel("ap_addr", "Addr", v)))
	case "Prefix":
		// representation invariant of netip.Prefix: invalid, or bits within the address length and no zone
		a := c.Sel("pfx_addr", "Addr", v)
		b1 := c.Sel("pfx_bits1", SBV(8), v)
		bl := c.Ite(c.Eq(c.addrZ(a), c.BV(z0, 8)), c.BV(0, 8), c.Ite(c.addrIs4(a), c.BV(32, 8), c.BV(128, 8)))
		x.assume(g, c.And(x.addrWF(a), c.BVCmp("bvule", c.addrZ(a), c.BV(z6, 8)), c.BVCmp("bvule", b1, c.BVBin("bvadd", bl, c.BV(1, 8))),
			c.Implies(c.Eq(c.addrZ(a), c.BV(z0, 8)), c.Eq(b1, c.BV(0, 8)))))
	}
	if v.op == "tuple" {
		if tup, ok := t.(*types.Tuple); ok {
			for i, a := range v.args {
				x.assumeWF(g, a, tup.At(i).Type(), st)
			}
		}
		return
	}
	// a symbolic struct value (a call result, a loaded struct): the type invariants of its slice, string and
	// address fields (one level of nesting is enough for the structs passed by value in this code base)
	if t != nil && !v.open && !x.ti.isLeaf(t) {
		if u, ok := types.Unalias(t).Underlying().(*types.Struct); ok && u.NumFields() <= 16 {
			s := x.ti.structSort(types.Unalias(t), u)
			if v.sort == s {
				for i := 0; i < u.NumFields(); i++ {
					ft := u.Field(i).Type()
					fs := x.ti.sortOf(ft)
					switch fs {
					case SSlice, SStr, "Addr", "AddrPort", "Prefix":
						x.assumeWF(g, c.Sel(fmt.Sprintf("%s_f%d", s, i), fs, v), ft, st)
					}
				}
			}
		}
	}
}

// ptrTag: a non-nil pointer of static type *E addresses a location of type E, so pointers (and field or element
// addresses) with different pointee types never alias. Stated once per address through an uninterpreted tag.
// Generic named types are tagged by their origin (type arguments ignored); pointee types that mention a type
// parameter are not tagged. Not valid across unsafe casts that reinterpret memory at the same path (none of the
// functions under contract does that: casts through unsafe.Pointer are followed by field addressing, which has its own path).
func (x *Exec) ptrTag(g, v *Term, t types.Type) {
	if t == nil || v.open {
		return
	}
	p, ok := types.Unalias(t).Underlying().(*types.Pointer)
	if !ok {
		return
	}
	x.ptrTagElem(g, v, p.Elem())
}

func mentionsTypeParam(t types.Type, depth int) bool {
	if depth > 6 {
		return true
	}
	switch u := types.Unalias(t).(type) {
	case *types.TypeParam:
		return true
	case *types.Named:
		return false // tagged by origin
	case *types.Pointer:
		return mentionsTypeParam(u.Elem(), depth+1)
	case *types.Slice:
		return mentionsTypeParam(u.Elem(), depth+1)
	case *types.Array:
		return mentionsTypeParam(u.Elem(), depth+1)
	case *types.Map:
		return mentionsTypeParam(u.Key(), depth+1) || mentionsTypeParam(u.Elem(), depth+1)
	case *types.Chan:
		return mentionsTypeParam(u.Elem(), depth+1)
	case *types.Struct:
		for i := 0; i < u.NumFields(); i++ {
			if mentionsTypeParam(u.Field(i).Type(), depth+1) {
				return true
			}
		}
		return false
	case *types.Basic, *types.Interface:
		return false
	}
	return true
}

// (guarded by the path condition: allocations on different paths can carry the same allocation number)
func (x *Exec) ptrTagElem(g, v *Term, elem types.Type) {
	if v.open {
		return
	}
	f := x.ptrTagFormula(v, elem)
	if f == nil {
		return
	}
	f = x.c.Implies(g, f)
	if x.ptrTagDone == nil {
		x.ptrTagDone = map[*Term]bool{}
	}
	if x.ptrTagDone[f] {
		return
	}
	x.ptrTagDone[f] = true
	x.assumeRaw(f)
}

// ptrTagFormula: "v is nil or addresses a location of type elem" (nil when elem is not taggable).
func (x *Exec) ptrTagFormula(v *Term, elem types.Type) *Term {
	if elem == nil || v.sort != SRef || os.Getenv("GOVC_NOPTRTAG") != "" {
		return nil
	}
	var k string
	switch n := types.Unalias(elem).(type) {
	case *types.Named:
		o := n.Origin().Obj()
		if o.Pkg() != nil {
			k = o.Pkg().Path() + "." + o.Name()
		} else {
			k = o.Name()
		}
	case *types.Basic:
		k = fmt.Sprintf("basic%d", n.Kind()) // byte and uint8 (rune and int32) are one type
	default:
		if mentionsTypeParam(elem, 0) {
			return nil
		}
		k = aliasWordRe.ReplaceAllStringFunc(types.TypeString(types.Unalias(elem), nil), func(w string) string {
			if w == "byte" {
				return "uint8"
			}
			return "int32"
		})
	}
	c := x.c
	if x.ptrTags == nil {
		x.ptrTags = map[string]int64{}
	}
	id, ok := x.ptrTags[k]
	if !ok {
		id = int64(len(x.ptrTags) + 1)
		x.ptrTags[k] = id
	}
	return c.Implies(c.Neq(v, c.Null()), c.Eq(c.UF("ptrtag", SInt, v), c.Int(id)))
}

var epochNameRe = regexp.MustCompile(`^(mem[0-9]+)_`)

// bindHavocBound: the memory symbols created by the havoc that just ended hold only references to objects that
// existed when it ended (allocation counter alloc).
func (x *Exec) bindHavocBound(alloc *Term) {
	if x.memBound == nil {
		x.memBound = map[string]*Term{}
	}
	for _, n := range x.pendingSyms {
		x.memBound[n] = alloc
	}
	x.pendingSyms = nil
}

var aliasWordRe = regexp.MustCompile(`\b(byte|rune)\b`)

package main

import (
	"regexp"
	"fmt"
	"go/types"
	"os"
	"path/filepath"
	"sort"
	"strings"
	"time"
)

func typesEval(P *Program, fr *Frame, text string) (types.Type, error) {
	pkg := fr.pkg
	if fr.contract != nil {
		pkg = P.PkgByPath[fr.contract.PkgPath]
	}
	pos := P.ContractFilePos[pkg.PkgPath]
	tv, err := types.Eval(P.Fset, pkg.Types, pos, text)
	if err != nil {
		return nil, err
	}
	return tv.Type, nil
}

// declareGhosts computes the Go types of the contract's ghost variables.
func (fr *Frame) declareGhosts() {
	if fr.contract == nil {
		return
	}
	for _, gcl := range fr.contract.Ghosts {
		if _, ok := fr.ghostTypes[gcl.Ghost]; ok {
			continue
		}
		tv, err := typesEval(fr.x.P, fr, gcl.Type)
		if err != nil {
			cfail("%s: ghost type %q: %v", fr.x.P.posStr(gcl.Pos), gcl.Type, err)
		}
		fr.ghostTypes[gcl.Ghost] = tv
	}
}

// ghostSort: ghost variables of function type func(A) B are logical maps (SMT arrays A -> B).
func (x *Exec) ghostSort(t types.Type) string {
	if sig, ok := t.Underlying().(*types.Signature); ok && sig.Params().Len() == 1 && sig.Results().Len() == 1 {
		return SArr(x.ti.sortOf(sig.Params().At(0).Type()), x.ti.sortOf(sig.Results().At(0).Type()))
	}
	return x.ti.sortOf(t)
}

type evidenceOut struct {
	json map[string]any
	exit int
}

func (x *Exec) report(prop string, obls []*Obligation, reports []*FuncReport, known []KnownFinding, start time.Time, work string, timeout int, skipped int) *evidenceOut {
	P := x.P
	byFunc := map[string]*FuncReport{}
	for _, r := range reports {
		byFunc[r.Key] = r
	}
	total, discharged := 0, 0
	solverTime := 0.0
	bySolver := map[string]int{}
	var samples []any
	var failed []*Obligation
	for _, o := range obls {
		total++
		r := byFunc[shortKey(o.Func)]
		if r != nil {
			r.Obligations++
			r.Seconds += o.Seconds
		}
		solverTime += o.Seconds
		if o.Status == "discharged" {
			discharged++
			bySolver[o.Solver]++
			if r != nil {
				r.Discharged++
			}
		} else {
			failed = append(failed, o)
			if r != nil {
				r.Failed = append(r.Failed, o.Name)
			}
		}
	}
	// samples: a few obligations of interesting kinds
	kindsSeen := map[string]int{}
	for _, o := range obls {
		if kindsSeen[o.Kind] >= 2 || len(samples) >= 14 {
			continue
		}
		kindsSeen[o.Kind]++
		samples = append(samples, map[string]any{"obligation": o.Name, "kind": o.Kind, "at": P.posStr(o.Pos), "clause": o.Text,
			"status": o.Status, "solver": o.Solver, "solver_s": round3(o.Seconds), "smt_bytes": o.SMTBytes})
	}
	violations := 0
	var lines []string
	knownHit := map[string]bool{}
	vacuous := false
	for _, r := range reports {
		if strings.HasPrefix(r.Vacuity, "VACUOUS") {
			vacuous = true
			lines = append(lines, fmt.Sprintf("ERROR property=%s contract of %s is vacuous: %s", prop, r.Key, r.Vacuity))
		}
	}
	// A known finding is recorded under the obligation's name, which contains the ordinal of the return statement it
	// was raised at. An unrelated edit that adds or removes a return statement renumbers the others: failed
	// obligations that match a listed finding up to that ordinal are accepted as that finding as long as there are not
	// more of them than listed findings of the same clause (a further violation of the clause is still reported).
	renumbered := map[string]*KnownFinding{}
	{
		used := map[*KnownFinding]bool{}
		for _, o := range failed {
			if kf := matchKnown(known, prop, o.Name); kf != nil {
				used[kf] = true
			}
		}
		avail := map[string][]*KnownFinding{}
		for i := range known {
			k := &known[i]
			if k.Property == prop && k.Status == "known" && !used[k] {
				avail[normObl(k.Obligation)] = append(avail[normObl(k.Obligation)], k)
			}
		}
		want := map[string][]*Obligation{}
		for _, o := range failed {
			if o.Status != "engine-error" && matchKnown(known, prop, o.Name) == nil {
				want[normObl(o.Name)] = append(want[normObl(o.Name)], o)
			}
		}
		for n, os := range want {
			if ks := avail[n]; len(ks) > 0 && len(os) <= len(ks) {
				for i, o := range os {
					renumbered[o.Name] = ks[i]
				}
			}
		}
	}
	engineErr := false
	for _, o := range failed {
		if o.Status == "engine-error" {
			engineErr = true
			lines = append(lines, fmt.Sprintf("ERROR property=%s the generated query for %s is ill-formed (verifier bug, not a verdict): %s", prop, o.Name, trunc(firstLine(o.Output), 200)))
			continue
		}
		kf := matchKnown(known, prop, o.Name)
		if kf == nil {
			kf = renumbered[o.Name]
		}
		if kf != nil && kf.Status == "known" {
			knownHit[o.Name] = true
			lines = append(lines, fmt.Sprintf("KNOWN-FINDING: property=%s %s — %s", prop, o.Name, kf.What))
			continue
		}
		violations++
		path := x.writeReplay(prop, o, work, timeout)
		suffix := ""
		if !o.replayConfirmed {
			suffix = " no-failing-input-found"
		}
		lines = append(lines, fmt.Sprintf("VIOLATION property=%s replay=%s obligation=%s at=%s status=%s%s", prop, path, o.Name, P.posStr(o.Pos), o.Status, suffix))
	}
	// known findings that no longer fail are fine (fixed or check passes): nothing printed.
	for _, l := range lines {
		fmt.Println(l)
	}
	var fns []string
	for k := range x.funcsUnderContract {
		fns = append(fns, shortKey(k))
	}
	sort.Strings(fns)
	var assumptions []string
	for n := range x.notes {
		assumptions = append(assumptions, n)
	}
	sort.Strings(assumptions)
	assumptions = append(assumptions,
		"go/ssa (x/tools v0.50.0) faithfully represents the Go source; SMT encoding of SSA instructions as described in DESIGN.md §2",
		"integers are fixed-width bit-vectors with Go's wrap-around semantics (not mathematical integers)",
		"each function is verified sequentially; goroutine interleavings are not explored",
		"memory exhaustion and stack overflow are not modelled")
	level := "proof"
	cov := map[string]any{
		"obligations":              total,
		"discharged":               discharged + len(knownHit),
		"discharged_by_solver":     discharged,
		"known_findings_reported":  len(knownHit),
		"skipped_in_this_tier":     skipped,
		"checker_cmd":              fmt.Sprintf("govc -prop %s -tier %s (go/ssa -> SMT-LIB2; race z3 4.8.12 / z3-new 5.1.0 / cvc5 1.0.3, %ds per obligation)", prop, x.tier, timeout),
		"trusted_base":             []string{"go/packages+go/types+go/ssa (golang.org/x/tools v0.50.0, go1.26.8)", "govc VC generator (/verif/govc)", "z3 4.8.12", "z3-new 5.1.0", "cvc5 1.0.3", "library models in /verif/govc/models.go"},
		"functions_under_contract": fns,
		"per_function":             reports,
		"by_solver":                bySolver,
		"solver_s":                 round3(solverTime),
		"load_s":                   round3(P.LoadSeconds),
		"samples":                  samples,
		"contract_files":           relPaths(P.Repo, P.ContractFiles),
	}
	ev := map[string]any{
		"property_id": prop,
		"tier":        x.tier,
		"seed":        0,
		"level":       level,
		"coverage":    cov,
		"assumptions": assumptions,
		"wall_s":      round3(time.Since(start).Seconds()),
		"violations":  violations,
	}
	exit := 0
	if violations > 0 {
		exit = 1
	}
	if (vacuous || engineErr) && exit == 0 {
		exit = 2
	}
	status := "PASS"
	if exit != 0 {
		status = "FAIL"
	}
	fmt.Printf("%s property=%s tier=%s obligations=%d discharged=%d known=%d skipped=%d functions=%d wall=%.1fs\n", status, prop, x.tier, total, discharged, len(knownHit), skipped, len(reports), time.Since(start).Seconds())
	if *flagVerbose {
		for _, o := range obls {
			fmt.Printf("  %-11s %-14s %6.2fs %s  (%s)\n", o.Status, o.Solver, o.Seconds, o.Name, P.posStr(o.Pos))
		}
		for _, r := range reports {
			fmt.Printf("  vacuity %s: %s\n", r.Key, r.Vacuity)
		}
	}
	return &evidenceOut{json: ev, exit: exit}
}

func relPaths(root string, ps []string) []string {
	var out []string
	for _, p := range ps {
		r, err := filepath.Rel(root, p)
		if err != nil {
			r = p
		}
		out = append(out, r)
	}
	sort.Strings(out)
	return out
}

func round3(f float64) float64 { return float64(int(f*1000+0.5)) / 1000 }

var returnOrdinalRe = regexp.MustCompile(`@return\d+`)
var dupSuffixRe = regexp.MustCompile(`~\d+$`)

// normObl: an obligation name with the ordinal of its return statement (and the duplicate counter) wildcarded.
func normObl(n string) string {
	return returnOrdinalRe.ReplaceAllString(dupSuffixRe.ReplaceAllString(n, ""), "@return*")
}

func matchKnown(known []KnownFinding, prop, obl string) *KnownFinding {
	for i := range known {
		k := &known[i]
		if k.Property == prop && k.Obligation == obl {
			return k
		}
	}
	return nil
}

// writeReplay writes the replay artefact for a failed obligation and returns its path.
func (x *Exec) writeReplay(prop string, o *Obligation, work string, timeout int) string {
	dir := *flagReplays
	if dir == "" {
		dir = filepath.Join("/verif/replays", prop)
	}
	os.MkdirAll(dir, 0o755)
	path := filepath.Join(dir, sanitizeFile(o.Name)+".go.txt")
	var sb strings.Builder
	fmt.Fprintf(&sb, "// Replay artefact for obligation %s (property %s)\n", o.Name, prop)
	fmt.Fprintf(&sb, "// at %s\n// clause: %s\n// status: %s (%s)\n", x.P.posStr(o.Pos), o.Text, o.Status, o.Solver)
	confirmed := false
	if o.Status == "failed" {
		if m := x.scalarModel(o, work, 20); m != nil {
			sb.WriteString("// counterexample (scalar symbols of the solver's model; p_ = parameter, loop_ = loop variable at an arbitrary iteration, ghost_ = ghost state):\n")
			for _, k := range sortedKeys(m) {
				if strings.HasPrefix(k, "p_") || strings.HasPrefix(k, "loop_") || strings.HasPrefix(k, "ghost_") || strings.HasPrefix(k, "ret_") || strings.HasPrefix(k, "hv_") {
					fmt.Fprintf(&sb, "//   %s = %s\n", k, m[k])
				}
			}
		}
	}
	if o.Status == "failed" && !*flagNoReplay {
		test, ok := x.buildReplay(prop, o, work, timeout)
		if test != "" {
			sb.WriteString(test)
		}
		confirmed = ok
	}
	o.replayConfirmed = confirmed
	if !confirmed {
		fmt.Fprintf(&sb, "\n// no failing input found by replay; solver output for the obligation:\n")
		for _, l := range strings.Split(trunc(o.Output, 4000), "\n") {
			fmt.Fprintf(&sb, "//   %s\n", l)
		}
	}
	os.WriteFile(path, []byte(sb.String()), 0o644)
	if o.replayFile != "" {
		return o.replayFile
	}
	return path
}

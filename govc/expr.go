package main

// expr.go: contract expressions. A clause is a Go expression; it is wrapped in
// a function literal that declares the contract-level names it uses (params,
// result, old/ghost names, loop locals), type-checked by go/types against the
// package of the contract file, and evaluated over the symbolic state.

import (
	"fmt"
	"go/ast"
	"go/parser"
	"go/token"
	"go/types"
	"regexp"
	"sort"
	"strings"

	"golang.org/x/tools/go/ssa"
)

type Compiled struct {
	lit        *ast.FuncLit
	info       *types.Info
	names      []string
	body       ast.Expr
	resultType types.Type
	nameTypes  map[string]types.Type
}

type ContractError struct{ msg string }

func (e *ContractError) Error() string { return e.msg }

func cfail(format string, a ...any) {
	panic(&ContractError{fmt.Sprintf(format, a...)})
}

var specialFuncs = map[string]bool{"old": true, "implies": true, "forall": true, "exists": true, "elems": true, "fresh": true,
	"sliceIs": true, "ite": true, "unchanged": true, "sameArray": true, "mapof": true, "allocated": true, "iff": true, "has": true, "clock": true, "same": true, "locked": true, "typed": true, "liteContains": true}

// freeIdents: identifiers in e that may refer to contract-level names.
func freeIdents(e ast.Expr) map[string]bool {
	out := map[string]bool{}
	bound := map[string]int{}
	var walk func(n ast.Node)
	walk = func(n ast.Node) {
		switch n := n.(type) {
		case nil:
			return
		case *ast.Ident:
			if bound[n.Name] == 0 {
				out[n.Name] = true
			}
		case *ast.SelectorExpr:
			walk(n.X)
		case *ast.KeyValueExpr:
			// struct literal keys are field names; map keys are expressions — keep both sides
			walk(n.Key)
			walk(n.Value)
		case *ast.FuncLit:
			var names []string
			for _, f := range n.Type.Params.List {
				for _, nm := range f.Names {
					names = append(names, nm.Name)
					bound[nm.Name]++
				}
				walk(f.Type)
			}
			ast.Inspect(n.Body, func(m ast.Node) bool {
				if ex, ok := m.(ast.Expr); ok {
					walk(ex)
					return false
				}
				return true
			})
			for _, nm := range names {
				bound[nm]--
			}
		default:
			ast.Inspect(n, func(m ast.Node) bool {
				if m == n {
					return true
				}
				if ex, ok := m.(ast.Expr); ok {
					walk(ex)
					return false
				}
				return true
			})
		}
	}
	walk(e)
	return out
}

// substTypeParams: contracts of generic functions are type-checked with the
// type parameters replaced by `any` (a function literal cannot be generic).
func substTypeParams(t types.Type) types.Type {
	anyT := types.Universe.Lookup("any").Type()
	switch u := t.(type) {
	case *types.TypeParam:
		return anyT
	case *types.Pointer:
		return types.NewPointer(substTypeParams(u.Elem()))
	case *types.Slice:
		return types.NewSlice(substTypeParams(u.Elem()))
	case *types.Array:
		return types.NewArray(substTypeParams(u.Elem()), u.Len())
	case *types.Map:
		return types.NewMap(substTypeParams(u.Key()), substTypeParams(u.Elem()))
	case *types.Named:
		// a type declared inside a function cannot be named by a contract (package scope): it stands for its
		// underlying type, with which it shares its representation
		if o := u.Obj(); o != nil && o.Pkg() != nil && o.Parent() != nil && o.Parent() != o.Pkg().Scope() && o.Parent() != types.Universe {
			return substTypeParams(u.Underlying())
		}
		if ta := u.TypeArgs(); ta != nil && ta.Len() > 0 {
			args := make([]types.Type, ta.Len())
			changed := false
			for i := 0; i < ta.Len(); i++ {
				args[i] = substTypeParams(ta.At(i))
				if args[i] != ta.At(i) {
					changed = true
				}
			}
			if changed {
				if inst, err := types.Instantiate(nil, u.Origin(), args, false); err == nil {
					return inst
				}
			}
		}
	}
	return t
}

func (fr *Frame) qualifier() types.Qualifier {
	return func(p *types.Package) string {
		if fr.pkg != nil && p == fr.pkg.Types {
			return ""
		}
		return p.Name()
	}
}

// nameTypes: contract-level names visible to a clause.
func (fr *Frame) visibleNames(loop *Loop) map[string]types.Type {
	m := map[string]types.Type{}
	var sig *types.Signature
	if fr.fn != nil && fr.fn.Blocks != nil {
		sig = fr.fn.Signature
		for _, p := range fr.fn.Params {
			m[p.Name()] = p.Type()
		}
	} else if fr.sig != nil {
		sig = fr.sig
		for i, n := range fr.paramNames {
			if i == 0 && n == "self" {
				continue
			}
		}
		off := len(fr.paramNames) - sig.Params().Len()
		for i := 0; i < sig.Params().Len(); i++ {
			m[fr.paramNames[i+off]] = sig.Params().At(i).Type()
		}
		if off == 1 && fr.selfType != nil {
			m["self"] = fr.selfType
		} else if off == 1 && sig.Recv() != nil {
			m[fr.paramNames[0]] = sig.Recv().Type()
		}
	}
	if sig != nil {
		n := sig.Results().Len()
		for i := 0; i < n; i++ {
			r := sig.Results().At(i)
			if r.Name() != "" && r.Name() != "_" {
				m[r.Name()] = r.Type()
			}
			m[fmt.Sprintf("result%d", i)] = r.Type()
			if n == 1 {
				m["result"] = r.Type()
			}
		}
	}
	if loop != nil {
		m["loopiter"] = types.Typ[types.Int] // copy index of an unrolled loop
		for _, ins := range loop.Header.Instrs {
			if phi, ok := ins.(*ssa.Phi); ok && phi.Comment == "rangeindex" {
				m["rangeindex"] = types.Typ[types.Int] // elements of the ranged slice already visited
			}
		}
		if rs := rangedSlice(loop.Header); rs != nil {
			m["rangeslice"] = rs.Type() // the slice a `for ... range` loop iterates over (often an unnamed call result)
		}
		if mapRangeKey(loop.Header) != "" {
			m["rangeindex"] = types.Typ[types.Int] // entries of the ranged map already visited
		}
	}
	for k, t := range fr.oldTypes {
		m[k] = t
	}
	for k, t := range fr.ghostTypes {
		m[k] = t
	}
	for k, t := range fr.cbArgTypes {
		m[k] = t
	}
	if fr.cbRetType != nil {
		if tup, ok := fr.cbRetType.(*types.Tuple); ok {
			for i := 0; i < tup.Len(); i++ {
				m[fmt.Sprintf("ret%d", i)] = tup.At(i).Type()
			}
		} else {
			m["ret"] = fr.cbRetType
		}
	}
	return m
}

func (fr *Frame) localVar(name string, loop *Loop) *types.Var {
	if fr.decl == nil || fr.fn == nil {
		return nil
	}
	if loop == nil && fr.site == nil {
		return nil
	}
	if loop != nil && loop.Stmt == nil {
		return nil
	}
	declPkg := fr.x.P.PkgByPath[fr.fn.Pkg.Pkg.Path()]
	if declPkg == nil {
		return nil
	}
	var pos token.Pos
	if loop == nil {
		// a clause about one call site (callrequires / callassumes): the locals in scope at the call
		pos = fr.site.Pos()
		if !pos.IsValid() {
			return nil
		}
	} else {
		switch s := loop.Stmt.(type) {
		case *ast.ForStmt:
			pos = s.Body.Lbrace
		case *ast.RangeStmt:
			pos = s.Body.Lbrace
		}
	}
	sc := declPkg.Types.Scope().Innermost(pos)
	if sc == nil {
		return nil
	}
	_, obj := sc.LookupParent(name, pos)
	if v, ok := obj.(*types.Var); ok && !v.IsField() && v.Parent() != declPkg.Types.Scope() {
		return v
	}
	return nil
}

func (fr *Frame) compile(cl *Clause, loop *Loop, extraTypes map[string]types.Type) *Compiled {
	if c, ok := fr.compiled[cl]; ok {
		return c
	}
	x := fr.x
	text := cl.Text
	e, err := parser.ParseExpr(text)
	if err != nil {
		cfail("%s: contract of %s does not parse: %v\n    %s", x.P.posStr(cl.Pos), shortKey(fr.key), err, text)
	}
	vis := fr.visibleNames(loop)
	for k, t := range extraTypes {
		vis[k] = t
	}
	free := freeIdents(e)
	var names []string
	nameTypes := map[string]types.Type{}
	for n := range free {
		if t, ok := vis[n]; ok {
			names = append(names, n)
			nameTypes[n] = t
			continue
		}
		if lv := fr.localVar(n, loop); lv != nil {
			names = append(names, n)
			nameTypes[n] = lv.Type()
		}
	}
	sort.Strings(names)
	var sb strings.Builder
	sb.WriteString("func(")
	for i, n := range names {
		if i > 0 {
			sb.WriteString(", ")
		}
		sb.WriteString(n + " " + types.TypeString(substTypeParams(nameTypes[n]), fr.qualifier()))
	}
	if cl.Kind == "lemma" {
		sb.WriteString(") { " + text + " }")
	} else {
		sb.WriteString(") { _ = (" + text + ") }")
	}
	fname := fmt.Sprintf("contract[%s %s]", shortKey(fr.key), x.P.posStr(cl.Pos))
	lit, err := parser.ParseExprFrom(x.P.Fset, fname, sb.String(), 0)
	if err != nil {
		cfail("%s: contract of %s does not parse: %v\n    %s", x.P.posStr(cl.Pos), shortKey(fr.key), err, text)
	}
	info := &types.Info{Types: map[ast.Expr]types.TypeAndValue{}, Defs: map[*ast.Ident]types.Object{}, Uses: map[*ast.Ident]types.Object{},
		Selections: map[*ast.SelectorExpr]*types.Selection{}, Instances: map[*ast.Ident]types.Instance{}}
	if fr.pkg == nil {
		cfail("no package for contract of %s", fr.key)
	}
	pos := x.P.ContractFilePos[fr.pkg.PkgPath]
	if fr.contract != nil {
		pos = x.P.ContractFilePos[fr.contract.PkgPath]
	}
	if !pos.IsValid() {
		cfail("package %s has no %s", fr.pkg.PkgPath, contractFileName)
	}
	cpkg := fr.pkg
	if fr.contract != nil {
		cpkg = x.P.PkgByPath[fr.contract.PkgPath]
	}
	if err := types.CheckExpr(x.P.Fset, cpkg.Types, pos, lit, info); err != nil {
		cfail("%s: contract of %s does not type-check: %v\n    %s", x.P.posStr(cl.Pos), shortKey(fr.key), err, text)
	}
	fl := lit.(*ast.FuncLit)
	var body ast.Expr
	if es, ok := fl.Body.List[0].(*ast.ExprStmt); ok {
		body = es.X
	} else {
		body = fl.Body.List[0].(*ast.AssignStmt).Rhs[0]
	}
	comp := &Compiled{lit: fl, info: info, names: names, body: body, resultType: info.Types[body].Type, nameTypes: nameTypes}
	fr.compiled[cl] = comp
	return comp
}

type Env struct {
	fr   *Frame
	comp *Compiled
	st   *State
	old  *State
	vars map[types.Object]*Term
	loop *Loop
	hdr  *ssa.BasicBlock
}

// resolveName finds the current symbolic value of a contract-level name.
func (fr *Frame) resolveName(n string, st *State, loop *Loop, extra map[string]*Term, entryParams bool) *Term {
	if t, ok := extra[n]; ok {
		return t
	}
	if t, ok := fr.olds[n]; ok {
		return t
	}
	if t, ok := st.ghost[n]; ok {
		return t
	}
	if loop != nil && n == "rangeindex" {
		// `rangeindex` in a clause of a `for ... range slice` loop: the number of elements already visited (the
		// index of the element the next iteration visits), i.e. the compiler's hidden index + 1
		for _, ins := range loop.Header.Instrs {
			if phi, ok := ins.(*ssa.Phi); ok && phi.Comment == "rangeindex" {
				if pv, ok := st.regs[phi]; ok {
					return fr.x.c.BVBin("bvadd", pv, fr.x.c.BV(1, 64))
				}
			}
		}
	}
	if loop != nil && n == "rangeindex" {
		if key := mapRangeKey(loop.Header); key != "" {
			if t, ok := st.ghost[key]; ok {
				return t
			}
		}
	}
	if loop != nil && n == "rangeslice" {
		if rs := rangedSlice(loop.Header); rs != nil {
			if _, isConst := rs.(*ssa.Const); isConst {
				return fr.value(st, rs)
			}
			if t, ok := st.regs[rs]; ok {
				return t
			}
		}
	}
	if loop != nil {
		if lv := fr.localVar(n, loop); lv != nil {
			if t := fr.localValue(lv, loop.Header, st); t != nil {
				return t
			}
			// a named result that has not been assigned on any path to the loop holds its zero value
			res := fr.fn.Signature.Results()
			for i := 0; i < res.Len(); i++ {
				if res.At(i) == lv {
					return fr.x.ti.zero(lv.Type())
				}
			}
		}
	}
	if fr.fn != nil {
		for i, p := range fr.fn.Params {
			if p.Name() == n && i < len(fr.params) {
				return fr.params[i]
			}
		}
	}
	for i, pn := range fr.paramNames {
		if pn == n && i < len(fr.params) {
			return fr.params[i]
		}
	}
	if loop == nil && fr.site != nil {
		// a local variable of the calling function, at the call site the clause is about
		if lv := fr.localVar(n, nil); lv != nil {
			if t := fr.localValueAt(lv, fr.site, st); t != nil {
				return t
			}
		}
	}
	return nil
}

// localValueAt: value of source variable v just before instruction site (the latest reference to v in site's block
// before it, else in the dominating blocks).
func (fr *Frame) localValueAt(v *types.Var, site ssa.Instruction, st *State) *Term {
	x := fr.x
	if a := fr.varAddr(v); a != nil {
		if t, ok := st.regs[a]; ok {
			return x.load(st, t, v.Type())
		}
	}
	scan := func(b *ssa.BasicBlock, from int) *Term {
		for i := from; i >= 0; i-- {
			switch ins := b.Instrs[i].(type) {
			case *ssa.DebugRef:
				if ins.Object() == v {
					if ins.IsAddr {
						if t, ok := st.regs[ins.X]; ok {
							return x.load(st, t, v.Type())
						}
						continue
					}
					if c, ok := ins.X.(*ssa.Const); ok {
						return x.constTerm(c)
					}
					if t, ok := st.regs[ins.X]; ok {
						return t
					}
				}
			case *ssa.Phi:
				if ins.Comment == v.Name() && types.Identical(ins.Type(), v.Type()) {
					if t, ok := st.regs[ins]; ok {
						return t
					}
				}
			}
		}
		return nil
	}
	b := site.Block()
	from := len(b.Instrs) - 1
	for i, ins := range b.Instrs {
		if ins == site {
			from = i - 1
			break
		}
	}
	if t := scan(b, from); t != nil {
		return t
	}
	for d := b.Idom(); d != nil; d = d.Idom() {
		if t := scan(d, len(d.Instrs)-1); t != nil {
			return t
		}
	}
	return nil
}

// varAddr: the memory cell of a source variable whose address is taken somewhere in the function (such a variable
// lives in an Alloc; a reference at its definition names only the initial value), nil for register variables.
func (fr *Frame) varAddr(v *types.Var) ssa.Value {
	if fr.fn == nil {
		return nil
	}
	var walk func(fn *ssa.Function) ssa.Value
	walk = func(fn *ssa.Function) ssa.Value {
		for _, b := range fn.Blocks {
			for _, ins := range b.Instrs {
				if dr, ok := ins.(*ssa.DebugRef); ok && dr.IsAddr && dr.Object() == v {
					if _, isAlloc := dr.X.(*ssa.Alloc); isAlloc {
						return dr.X
					}
				}
			}
		}
		return nil
	}
	return walk(fr.fn)
}

// localValue: value of source variable v at the head of block hdr.
func (fr *Frame) localValue(v *types.Var, hdr *ssa.BasicBlock, st *State) *Term {
	x := fr.x
	if a := fr.varAddr(v); a != nil {
		if t, ok := st.regs[a]; ok {
			return x.load(st, t, v.Type())
		}
	}
	try := func(b *ssa.BasicBlock, onlyPhis bool) *Term {
		for i := len(b.Instrs) - 1; i >= 0; i-- {
			switch ins := b.Instrs[i].(type) {
			case *ssa.DebugRef:
				if onlyPhis {
					continue
				}
				if ins.Object() == v {
					if t, ok := st.regs[ins.X]; ok {
						if ins.IsAddr {
							return x.load(st, t, v.Type())
						}
						return t
					}
					if c, ok := ins.X.(*ssa.Const); ok {
						return x.constTerm(c)
					}
				}
			case *ssa.Phi:
				if ins.Comment == v.Name() && types.Identical(ins.Type(), v.Type()) {
					if t, ok := st.regs[ins]; ok {
						return t
					}
				}
			}
		}
		return nil
	}
	if t := try(hdr, true); t != nil {
		return t
	}
	// index variable of `for i := range s`: i is (hidden range index)+1, computed in the header
	if l := fr.li.ByHeader[hdr]; l != nil {
		for b := range l.Blocks {
			for _, ins := range b.Instrs {
				dr, ok := ins.(*ssa.DebugRef)
				if !ok || dr.Object() != v || dr.IsAddr {
					continue
				}
				if inc, ok := dr.X.(*ssa.BinOp); ok && inc.Op == token.ADD && inc.Block() == hdr {
					if phi, ok := inc.X.(*ssa.Phi); ok && phi.Block() == hdr && phi.Comment == "rangeindex" {
						if k, ok := inc.Y.(*ssa.Const); ok {
							if pv, ok := st.regs[phi]; ok {
								return x.c.BVBin("bvadd", pv, x.constTerm(k))
							}
						}
					}
				}
			}
		}
	}
	for b := hdr.Idom(); b != nil; b = b.Idom() {
		if t := try(b, false); t != nil {
			return t
		}
	}
	return nil
}

// evalClauseAt evaluates a clause in state st. extra binds additional names.
func (fr *Frame) evalClauseAt(cl *Clause, st *State, loop *Loop, extra map[string]*Term) *Term {
	comp := fr.compile(cl, loop, nil)
	env := &Env{fr: fr, comp: comp, st: st, old: fr.entry, vars: map[types.Object]*Term{}, loop: loop}
	if env.old == nil {
		env.old = st
	}
	i := 0
	for _, f := range comp.lit.Type.Params.List {
		for _, nm := range f.Names {
			obj := comp.info.Defs[nm]
			t := fr.resolveName(nm.Name, st, loop, extra, loop == nil)
			if t == nil {
				cfail("%s: contract of %s: cannot resolve %q at this point\n    %s", fr.x.P.posStr(cl.Pos), shortKey(fr.key), nm.Name, cl.Text)
			}
			env.vars[obj] = t
			i++
		}
	}
	fr.quiet++
	defer func() { fr.quiet-- }()
	switch cl.Kind {
	case "old":
		fr.oldTypes[cl.Ghost] = comp.resultType
	case "ghost":
	}
	t := env.eval(comp.body)
	switch cl.Kind {
	case "requires", "ensures", "invariant", "callback-requires", "callback-returns":
		if t.sort != SBool {
			cfail("%s: contract clause of %s is not boolean\n    %s", fr.x.P.posStr(cl.Pos), shortKey(fr.key), cl.Text)
		}
	}
	return t
}

// applyLemma: a `lemma F(args)` clause is a ghost call of the contracted
// function F at this point: its requires become obligations, its ensures are
// assumed. F itself is verified like any other function under contract.
func (fr *Frame) applyLemma(cl *Clause, st *State, g *Term, loop *Loop, extra map[string]*Term) {
	x := fr.x
	comp := fr.compile(cl, loop, nil)
	call, ok := ast.Unparen(comp.body).(*ast.CallExpr)
	if !ok {
		cfail("%s: lemma clause must be a call F(args): %s", x.P.posStr(cl.Pos), cl.Text)
	}
	var fobj types.Object
	switch f := ast.Unparen(call.Fun).(type) {
	case *ast.Ident:
		fobj = comp.info.Uses[f]
	case *ast.SelectorExpr:
		fobj = comp.info.Uses[f.Sel]
	}
	fn, ok := fobj.(*types.Func)
	if !ok {
		cfail("%s: lemma clause does not name a function: %s", x.P.posStr(cl.Pos), cl.Text)
	}
	key := funcObjKey(fn)
	fc := x.P.Contracts[key]
	sfn := x.P.lookupFunc(fn)
	if fc == nil || sfn == nil {
		cfail("%s: lemma function %s has no contract", x.P.posStr(cl.Pos), key)
	}
	env := fr.newEnv(comp, st, loop, extra, cl)
	fr.quiet++
	var args []*Term
	for _, a := range call.Args {
		args = append(args, env.eval(a))
	}
	fr.quiet--
	var names []string
	for _, p := range sfn.Params {
		names = append(names, p.Name())
	}
	if cl.Label == "old" && fr.entry != nil {
		// lemma about the entry state's memory (facts about old(...) specification terms)
		st2 := st.clone()
		st2.mem = map[string]*Term{}
		for k, v := range fr.entry.mem {
			st2.mem[k] = v
		}
		st2.ep = fr.entry.ep
		fr.applyContract(st2, g, fc, sfn, sfn.Signature, names, args, cl.Pos)
		return
	}
	fr.applyContract(st, g, fc, sfn, sfn.Signature, names, args, cl.Pos)
}

func (env *Env) typeOf(e ast.Expr) types.Type {
	tv, ok := env.comp.info.Types[e]
	if !ok {
		if id, ok := e.(*ast.Ident); ok {
			if o := env.comp.info.Uses[id]; o != nil {
				return o.Type()
			}
		}
		cfail("no type for expression %s", exprString(e))
	}
	return tv.Type
}

func exprString(e ast.Expr) string { return types.ExprString(e) }

func (env *Env) eval(e ast.Expr) *Term {
	x := env.fr.x
	c := x.c
	info := env.comp.info
	if tv, ok := info.Types[e]; ok && tv.Value != nil && tv.Type != nil {
		if b, ok := tv.Type.Underlying().(*types.Basic); !ok || b.Kind() != types.UntypedNil {
			return x.constOfType(tv.Value, tv.Type)
		}
	}
	switch e := e.(type) {
	case *ast.ParenExpr:
		return env.eval(e.X)
	case *ast.Ident:
		switch e.Name {
		case "true":
			return c.True()
		case "false":
			return c.False()
		}
		obj := info.Uses[e]
		if obj == nil {
			obj = info.Defs[e]
		}
		if t, ok := env.vars[obj]; ok {
			return t
		}
		switch o := obj.(type) {
		case *types.Nil:
			return x.ti.zero(env.typeOf(e))
		case *types.Var:
			return env.globalVar(o)
		}
		cfail("unsupported identifier %s in contract", e.Name)
	case *ast.SelectorExpr:
		if sel, ok := info.Selections[e]; ok {
			if sel.Kind() != types.FieldVal {
				cfail("method value %s in contract", exprString(e))
			}
			pl := env.place(e.X)
			pl = env.walkFields(pl, sel.Index())
			return env.readPlace(pl)
		}
		// qualified identifier
		obj := info.Uses[e.Sel]
		if v, ok := obj.(*types.Var); ok {
			return env.globalVar(v)
		}
		cfail("unsupported selector %s in contract", exprString(e))
	case *ast.StarExpr:
		p := env.eval(e.X)
		return env.typedLoad(p, env.typeOf(e))
	case *ast.UnaryExpr:
		switch e.Op {
		case token.NOT:
			return c.Not(env.eval(e.X))
		case token.SUB:
			return c.BVNeg(env.eval(e.X))
		case token.XOR:
			return c.BVNot(env.eval(e.X))
		case token.ADD:
			return env.eval(e.X)
		case token.AND:
			pl := env.place(e.X)
			if pl.addr == nil {
				cfail("cannot take address of %s in contract", exprString(e.X))
			}
			return pl.addr
		}
	case *ast.BinaryExpr:
		switch e.Op {
		case token.LAND:
			return c.And(env.eval(e.X), env.eval(e.Y))
		case token.LOR:
			return c.Or(env.eval(e.X), env.eval(e.Y))
		}
		a, b := env.eval(e.X), env.eval(e.Y)
		ta, tb := env.typeOf(e.X), env.typeOf(e.Y)
		// untyped nil comparisons
		if a.sort != b.sort && (e.Op == token.EQL || e.Op == token.NEQ) {
			if isNilExpr(e.Y) {
				b = x.ti.zero(ta)
			} else if isNilExpr(e.X) {
				a = x.ti.zero(tb)
			}
		}
		return env.fr.binop(e.Op, a, b, ta, tb, token.NoPos, c.True())
	case *ast.IndexExpr:
		if tv, ok := info.Types[e.X]; ok && !tv.IsValue() {
			cfail("generic instantiation in contract: %s", exprString(e))
		}
		pl := env.place(e)
		return env.readPlace(pl)
	case *ast.SliceExpr:
		xv := env.eval(e.X)
		idx := func(ie ast.Expr) *Term {
			if ie == nil {
				return nil
			}
			return env.fr.toIndex(env.eval(ie), env.typeOf(ie))
		}
		lo, hi, mx := idx(e.Low), idx(e.High), idx(e.Max)
		switch u := env.typeOf(e.X).Underlying().(type) {
		case *types.Slice:
			if lo == nil {
				lo = c.BV(0, 64)
			}
			if hi == nil {
				hi = c.SlLen(xv)
			}
			if mx == nil {
				mx = c.SlCap(xv)
			}
			return c.MkSlice(c.SlPtr(xv), c.BVBin("bvadd", c.SlOff(xv), lo), c.BVBin("bvsub", hi, lo), c.BVBin("bvsub", mx, lo))
		case *types.Basic:
			if lo == nil {
				lo = c.BV(0, 64)
			}
			if hi == nil {
				hi = c.StrLen(xv)
			}
			return x.substr(xv, lo, hi)
		case *types.Pointer:
			arr := u.Elem().Underlying().(*types.Array)
			n := c.BV(uint64(arr.Len()), 64)
			if lo == nil {
				lo = c.BV(0, 64)
			}
			if hi == nil {
				hi = n
			}
			if mx == nil {
				mx = n
			}
			return c.MkSlice(xv, lo, c.BVBin("bvsub", hi, lo), c.BVBin("bvsub", mx, lo))
		}
		cfail("unsupported slice expression %s", exprString(e))
	case *ast.CallExpr:
		return env.evalCall(e)
	case *ast.CompositeLit:
		return env.evalComposite(e)
	}
	cfail("unsupported expression in contract: %s (%T)", exprString(e), e)
	return nil
}

func isNilExpr(e ast.Expr) bool {
	id, ok := e.(*ast.Ident)
	return ok && id.Name == "nil"
}

func (env *Env) globalVar(o *types.Var) *Term {
	x := env.fr.x
	if o.Pkg() == nil {
		cfail("unsupported variable %s", o.Name())
	}
	sp := x.P.SSA.Package(o.Pkg())
	if sp == nil {
		cfail("no SSA package for %s", o.Pkg().Path())
	}
	g := sp.Var(o.Name())
	if g == nil {
		cfail("no global %s.%s", o.Pkg().Path(), o.Name())
	}
	if t := x.constGlobal(g); t != nil {
		return t
	}
	return x.load(env.st, x.globalAddr(g), o.Type())
}

// place: either an address in memory or a value.
type place struct {
	addr *Term
	val  *Term
	typ  types.Type
}

func (env *Env) place(e ast.Expr) place {
	x := env.fr.x
	c := x.c
	info := env.comp.info
	switch e := e.(type) {
	case *ast.ParenExpr:
		return env.place(e.X)
	case *ast.StarExpr:
		return place{addr: env.eval(e.X), typ: env.typeOf(e)}
	case *ast.SelectorExpr:
		if sel, ok := info.Selections[e]; ok && sel.Kind() == types.FieldVal {
			return env.walkFields(env.place(e.X), sel.Index())
		}
	case *ast.IndexExpr:
		xt := env.typeOf(e.X)
		switch u := xt.Underlying().(type) {
		case *types.Slice:
			sv := env.eval(e.X)
			iv := env.fr.toIndex(env.eval(e.Index), env.typeOf(e.Index))
			return place{addr: x.sliceElemAddr(sv, iv), typ: u.Elem()}
		case *types.Pointer:
			if arr, ok := u.Elem().Underlying().(*types.Array); ok {
				pv := env.eval(e.X)
				iv := env.fr.toIndex(env.eval(e.Index), env.typeOf(e.Index))
				return place{addr: c.RElem(pv, iv), typ: arr.Elem()}
			}
		case *types.Array:
			pl := env.place(e.X)
			iv := env.fr.toIndex(env.eval(e.Index), env.typeOf(e.Index))
			if pl.addr != nil {
				return place{addr: c.RElem(pl.addr, iv), typ: u.Elem()}
			}
			return place{val: c.Select(pl.val, iv), typ: u.Elem()}
		case *types.Basic:
			sv := env.eval(e.X)
			iv := env.fr.toIndex(env.eval(e.Index), env.typeOf(e.Index))
			return place{val: c.StrAt(sv, iv), typ: types.Typ[types.Uint8]}
		case *types.Map:
			mv := env.eval(e.X)
			k := env.eval(e.Index)
			ks, vs := mapKeys(x, u)
			x.mapTag(mv, u)
			pres := c.And(c.Neq(mv, c.Null()), c.Select(c.Select(x.mapPresent(env.st, ks), mv), k))
			v := c.Ite(pres, c.Select(c.Select(x.mapVals(env.st, ks, vs), mv), k), x.ti.zero(u.Elem()))
			return place{val: v, typ: u.Elem()}
		}
	}
	v := env.eval(e)
	t := env.typeOf(e)
	return place{val: v, typ: t}
}

func (env *Env) walkFields(pl place, path []int) place {
	x := env.fr.x
	c := x.c
	for _, i := range path {
		// implicit dereference
		if p, ok := types.Unalias(pl.typ).Underlying().(*types.Pointer); ok {
			var pv *Term
			if pl.addr != nil {
				pv = env.typedLoad(pl.addr, pl.typ)
			} else {
				pv = pl.val
			}
			pl = place{addr: pv, typ: p.Elem()}
		}
		st, ok := types.Unalias(pl.typ).Underlying().(*types.Struct)
		if !ok {
			cfail("field selection on non-struct %s", pl.typ)
		}
		ft := st.Field(i).Type()
		if pl.addr != nil {
			pl = place{addr: c.RSub(pl.addr, i), typ: ft}
		} else {
			pl = place{val: env.fr.fieldOf(pl.val, pl.typ, st, i), typ: ft}
		}
	}
	return pl
}

func (env *Env) readPlace(pl place) *Term {
	if pl.addr != nil {
		return env.typedLoad(pl.addr, pl.typ)
	}
	return pl.val
}

// typedLoad: a load made by a contract expression. A pointer read directly from a memory symbol (the entry memory
// or the memory a havoc created) carries the typing fact the engine states for pointers loaded by the code; it is
// stated unconditionally, which is safe for such terms (a free memory symbol never reduces to a particular object).
func (env *Env) typedLoad(addr *Term, t types.Type) *Term {
	x := env.fr.x
	v := x.load(env.st, addr, t)
	if v.sort == SRef && !v.open && v.op == "select" && v.args[0].op == "var" {
		x.ptrTag(x.c.True(), v, t)
	}
	// ... and the allocation fact: what a memory symbol holds existed when that memory came into being (function entry,
	// or the end of the havoc that created it), so it is older than anything allocated afterwards
	if (v.sort == SRef || v.sort == SSlice) && !v.open && v.op == "select" && v.args[0].op == "var" && x.entryAlloc != nil {
		var bound *Term
		name := v.args[0].name
		if strings.HasPrefix(name, "mem0_") {
			bound = x.entryAlloc
		} else {
			key := name
			if m := epochNameRe.FindStringSubmatch(key); m != nil {
				key = m[1]
			}
			bound = x.memBound[key]
		}
		if bound != nil {
			r := v
			if v.sort == SSlice {
				r = x.c.SlPtr(v)
			}
			// only for cells of objects that existed then (the symbol also stands for the initial contents of objects
			// allocated later, e.g. by a callee under contract, which may hold newer references)
			cell := v.args[1]
			if cell.sort == SRef && !cell.open {
				x.assume(x.c.True(), x.c.Implies(x.c.IntCmp("<", x.c.RRoot(cell), bound), x.c.IntCmp("<", x.c.RRoot(r), bound)))
			}
		}
	}
	return v
}

func (env *Env) evalCall(e *ast.CallExpr) *Term {
	x := env.fr.x
	c := x.c
	info := env.comp.info
	// conversion
	if tv, ok := info.Types[e.Fun]; ok && tv.IsType() {
		v := env.eval(e.Args[0])
		return env.fr.convert(v, env.typeOf(e.Args[0]), tv.Type, env.st, c.True())
	}
	var fobj types.Object
	switch f := ast.Unparen(e.Fun).(type) {
	case *ast.Ident:
		fobj = info.Uses[f]
		// application of a ghost logical map
		if t, ok := env.vars[fobj]; ok {
			if _, _, isArr := arrParts(t.sort); isArr && len(e.Args) == 1 {
				return c.Select(t, env.eval(e.Args[0]))
			}
			cfail("call of non-ghost function value %s in contract", f.Name)
		}
	case *ast.SelectorExpr:
		fobj = info.Uses[f.Sel]
	case *ast.IndexExpr: // explicit instantiation
		if id, ok := f.X.(*ast.Ident); ok {
			fobj = info.Uses[id]
		}
	}
	if b, ok := fobj.(*types.Builtin); ok {
		switch b.Name() {
		case "len":
			return x.lenOf(env.st, env.eval(e.Args[0]), env.typeOf(e.Args[0]))
		case "cap":
			v := env.eval(e.Args[0])
			if v.sort == SSlice {
				return c.SlCap(v)
			}
			if a, ok := derefArray(env.typeOf(e.Args[0])); ok {
				return c.BV(uint64(a.Len()), 64)
			}
		case "min", "max":
			r := env.eval(e.Args[0])
			signed := isSignedType(env.typeOf(e.Args[0]))
			for _, ae := range e.Args[1:] {
				a := env.eval(ae)
				var lt *Term
				if signed {
					lt = c.BVCmp("bvslt", a, r)
				} else {
					lt = c.BVCmp("bvult", a, r)
				}
				if b.Name() == "min" {
					r = c.Ite(lt, a, r)
				} else {
					r = c.Ite(lt, r, a)
				}
			}
			return r
		}
		cfail("builtin %s not supported in contracts", b.Name())
	}
	fn, ok := fobj.(*types.Func)
	if !ok {
		cfail("unsupported call in contract: %s", exprString(e))
	}
	if fn.Pkg() != nil && specialFuncs[fn.Name()] && fn.Type().(*types.Signature).Recv() == nil {
		if cf := x.P.ContractFilePos[fn.Pkg().Path()]; cf.IsValid() {
			return env.evalSpecial(fn.Name(), e)
		}
	}
	// ordinary function / method: inline as spec
	var args []*Term
	sig := fn.Type().(*types.Signature)
	if sig.Recv() != nil {
		se := ast.Unparen(e.Fun).(*ast.SelectorExpr)
		sel := info.Selections[se]
		if sel == nil {
			cfail("unsupported method expression %s", exprString(e))
		}
		recvPl := env.place(se.X)
		path := sel.Index()
		recvPl = env.walkFields(recvPl, path[:len(path)-1])
		_, wantPtr := sig.Recv().Type().(*types.Pointer)
		_, havePtr := types.Unalias(recvPl.typ).Underlying().(*types.Pointer)
		_, isIface := types.Unalias(recvPl.typ).Underlying().(*types.Interface)
		switch {
		case isIface:
			// interface method: an uninterpreted function of the receiver and arguments (below)
			args = append(args, env.readPlace(recvPl))
		case wantPtr && havePtr, !wantPtr && !havePtr:
			args = append(args, env.readPlace(recvPl))
		case wantPtr && !havePtr:
			if recvPl.addr == nil {
				cfail("cannot take address of receiver in %s", exprString(e))
			}
			args = append(args, recvPl.addr)
		case !wantPtr && havePtr:
			p := env.readPlace(recvPl)
			args = append(args, x.load(env.st, p, types.Unalias(recvPl.typ).Underlying().(*types.Pointer).Elem()))
		}
	}
	for _, a := range e.Args {
		args = append(args, env.eval(a))
	}
	key := funcObjKey(fn)
	sfn := x.P.lookupFunc(fn)
	if m := lookupModel(key); m != nil {
		cc := &ssa.CallCommon{}
		_ = cc
		return m.applySpec(env.fr, env.st, args, sig)
	}
	if sfn == nil || sfn.Blocks == nil {
		// uninterpreted function of its arguments (and nothing else)
		rt := resultType(sig)
		if rt == nil {
			cfail("call to %s without result in contract", key)
		}
		if _, isTup := rt.(*types.Tuple); isTup {
			cfail("call to body-less multi-result function %s in contract", key)
		}
		x.note("uninterpreted function in contracts: " + shortKey(key))
		return c.UF("uf_"+sanitize(shortKey(key)), x.ti.sortOf(rt), args...)
	}
	if fc := x.P.Contracts[key]; fc != nil && fc.Recursive > 0 {
		return env.fr.applyRecursive(env.st, sfn, fc, args)
	}
	if fc := x.P.Contracts[key]; fc != nil {
		if r, ok := env.fr.opaqueApp(fc, sfn, args); ok {
			return r
		}
	}
	// run as pure function on a scratch copy of the state (no effects leak)
	scratch := env.st.clone()
	r := env.fr.inlineCall(scratch, c.True(), sfn, args, nil, true)
	return r
}

func (env *Env) evalSpecial(name string, e *ast.CallExpr) *Term {
	x := env.fr.x
	c := x.c
	switch name {
	case "old":
		saved := env.st
		env.st = env.old
		defer func() { env.st = saved }()
		return env.eval(e.Args[0])
	case "implies":
		return c.Implies(env.eval(e.Args[0]), env.eval(e.Args[1]))
	case "iff":
		return c.Eq(env.eval(e.Args[0]), env.eval(e.Args[1]))
	case "ite":
		return c.Ite(env.eval(e.Args[0]), env.eval(e.Args[1]), env.eval(e.Args[2]))
	case "forall", "exists":
		fl, ok := ast.Unparen(e.Args[0]).(*ast.FuncLit)
		if !ok {
			cfail("%s needs a function literal", name)
		}
		var bvs []*Term
		for _, f := range fl.Type.Params.List {
			for _, nm := range f.Names {
				obj := env.comp.info.Defs[nm]
				bv := c.BVar(nm.Name, x.ti.sortOf(obj.Type()))
				env.vars[obj] = bv
				bvs = append(bvs, bv)
			}
		}
		if len(fl.Body.List) != 1 {
			cfail("quantifier body must be a single return statement")
		}
		rs, ok := fl.Body.List[0].(*ast.ReturnStmt)
		if !ok || len(rs.Results) != 1 {
			cfail("quantifier body must be a single return statement")
		}
		body := env.eval(rs.Results[0])
		if name == "forall" {
			return c.Forall(bvs, body)
		}
		return c.Exists(bvs, body)
	case "unchanged":
		cur := env.eval(e.Args[0])
		saved := env.st
		env.st = env.old
		o := env.eval(e.Args[0])
		env.st = saved
		return c.Eq(cur, o)
	case "fresh":
		p := env.eval(e.Args[0])
		if p.sort == SSlice {
			p = c.SlPtr(p)
		}
		return c.And(c.IntCmp(">=", c.RRoot(p), env.old.alloc), c.IntCmp("<", c.RRoot(p), env.st.alloc))
	case "allocated":
		p := env.eval(e.Args[0])
		if p.sort == SSlice {
			p = c.SlPtr(p)
		}
		return c.And(c.IntCmp(">", c.RRoot(p), c.Int(0)), c.IntCmp("<", c.RRoot(p), env.st.alloc))
	case "same":
		// same(a, b): identical values (for slices: same array, offset, length and capacity)
		return c.Eq(env.eval(e.Args[0]), env.eval(e.Args[1]))
	case "has":
		// has(m, k): key k is present in map m
		mv := env.eval(e.Args[0])
		mt, ok := env.typeOf(e.Args[0]).Underlying().(*types.Map)
		if !ok {
			cfail("has(m, k) needs a map")
		}
		ks, _ := mapKeys(x, mt)
		x.mapTag(mv, mt)
		return c.And(c.Neq(mv, c.Null()), c.Select(c.Select(x.mapPresent(env.st, ks), mv), env.eval(e.Args[1])))
	case "clock":
		// clock(): the latest instant time.Now() has returned (ghost; instants never decrease)
		return x.clockOf(env.st)
	case "typed":
		// typed(p): p is nil or addresses a location of p's static pointee type (the typing fact the engine assumes
		// for every pointer it loads; spelled out for pointers under a quantifier)
		v := env.eval(e.Args[0])
		if pt, ok := types.Unalias(env.typeOf(e.Args[0])).Underlying().(*types.Pointer); ok {
			if f := x.ptrTagFormula(v, pt.Elem()); f != nil {
				return f
			}
		}
		return c.True()
	case "liteContains":
		// liteContains(t, ip): membership of ip in the *bart.Lite t (the same uninterpreted function the model of
		// Lite.Contains uses: the receiver of that method is the embedded table, field 0 of Lite)
		return c.UF("bart_lite_contains", SBool, c.RSub(env.eval(e.Args[0]), 0), env.eval(e.Args[1]))
	case "locked":
		// locked(&mu): the sync.Mutex / sync.RWMutex at that address is held (set by Lock, cleared by Unlock)
		return c.Select(x.memOf(env.st, SBool), env.eval(e.Args[0]))
	case "sameArray":
		a, b := env.eval(e.Args[0]), env.eval(e.Args[1])
		return c.Eq(c.SlPtr(a), c.SlPtr(b))
	case "sliceIs":
		// sliceIs(s, base, lo, hi, max): s == base[lo:hi:max]
		s, base := env.eval(e.Args[0]), env.eval(e.Args[1])
		lo := env.fr.toIndex(env.eval(e.Args[2]), env.typeOf(e.Args[2]))
		hi := env.fr.toIndex(env.eval(e.Args[3]), env.typeOf(e.Args[3]))
		mx := env.fr.toIndex(env.eval(e.Args[4]), env.typeOf(e.Args[4]))
		return c.And(c.Eq(c.SlPtr(s), c.SlPtr(base)), c.Eq(c.SlOff(s), c.BVBin("bvadd", c.SlOff(base), lo)),
			c.Eq(c.SlLen(s), c.BVBin("bvsub", hi, lo)), c.Eq(c.SlCap(s), c.BVBin("bvsub", mx, lo)))
	}
	cfail("special function %s not usable here", name)
	return nil
}

func (env *Env) evalComposite(e *ast.CompositeLit) *Term {
	x := env.fr.x
	t := env.typeOf(e)
	if _, special := x.ti.specialNamed(types.Unalias(t)); special {
		cfail("composite literal of modelled type %s in contract", t)
	}
	switch u := types.Unalias(t).Underlying().(type) {
	case *types.Struct:
		s := x.ti.structSort(types.Unalias(t), u)
		args := make([]*Term, u.NumFields())
		for i := range args {
			args[i] = x.ti.zero(u.Field(i).Type())
		}
		for i, el := range e.Elts {
			if kv, ok := el.(*ast.KeyValueExpr); ok {
				name := kv.Key.(*ast.Ident).Name
				for j := 0; j < u.NumFields(); j++ {
					if u.Field(j).Name() == name {
						args[j] = env.eval(kv.Value)
					}
				}
			} else {
				args[i] = env.eval(el)
			}
		}
		return x.c.App("mk_"+s, s, args...)
	case *types.Array:
		arr := x.ti.zero(t)
		for i, el := range e.Elts {
			arr = x.c.Store(arr, x.c.BV(uint64(i), 64), env.eval(el))
		}
		return arr
	}
	cfail("composite literal %s in contract", exprString(e))
	return nil
}

// ---------- assigns targets ----------

var elemFieldRe = regexp.MustCompile(`^elems\((.*)\)\.([A-Za-z_][A-Za-z0-9_]*)$`)

func splitTopLevel(s string) []string {
	var out []string
	depth := 0
	start := 0
	for i, r := range s {
		switch r {
		case '(', '[', '{':
			depth++
		case ')', ']', '}':
			depth--
		case ',':
			if depth == 0 {
				out = append(out, strings.TrimSpace(s[start:i]))
				start = i + 1
			}
		}
	}
	if t := strings.TrimSpace(s[start:]); t != "" {
		out = append(out, t)
	}
	return out
}

func (fr *Frame) targetClauses(cl *Clause) []*Clause {
	if fr.targetCache == nil {
		fr.targetCache = map[*Clause][]*Clause{}
	}
	if cs, ok := fr.targetCache[cl]; ok {
		return cs
	}
	var cs []*Clause
	for _, part := range splitTopLevel(cl.Text) {
		cs = append(cs, &Clause{Kind: "target", Text: part, Pos: cl.Pos, Loop: cl.Loop})
	}
	fr.targetCache[cl] = cs
	return cs
}

// evalTargets evaluates an assigns clause to a list of memory targets.
func (fr *Frame) evalTargets(cl *Clause, st *State, loop *Loop, extra map[string]*Term) []target {
	x := fr.x
	var out []target
	for _, tc := range fr.targetClauses(cl) {
		txt := tc.Text
		switch {
		case txt == "nothing":
			continue
		case txt == "everything":
			out = append(out, target{kind: "all"})
			continue
		}
		if _, isGhost := st.ghost[txt]; isGhost {
			out = append(out, target{kind: "ghost", name: txt})
			continue
		}
		if _, isGhostT := fr.ghostTypes[txt]; isGhostT {
			out = append(out, target{kind: "ghost", name: txt})
			continue
		}
		if m := elemFieldRe.FindStringSubmatch(txt); m != nil {
			// elems(s).f : field f of every element of slice s
			sc := &Clause{Kind: "target", Text: m[1], Pos: tc.Pos}
			if cached, ok := fr.targetCache[tc]; ok && len(cached) == 1 {
				sc = cached[0]
			} else {
				fr.targetCache[tc] = []*Clause{sc}
			}
			comp := fr.compile(sc, loop, nil)
			env := fr.newEnv(comp, st, loop, extra, sc)
			fr.quiet++
			sv := env.eval(comp.body)
			fr.quiet--
			sl, ok := comp.resultType.Underlying().(*types.Slice)
			if !ok {
				cfail("%s: elems(...) needs a slice: %s", x.P.posStr(cl.Pos), txt)
			}
			stt, ok := sl.Elem().Underlying().(*types.Struct)
			if !ok {
				cfail("%s: elems(s).f needs a slice of structs: %s", x.P.posStr(cl.Pos), txt)
			}
			found := false
			for i := 0; i < stt.NumFields(); i++ {
				if stt.Field(i).Name() == m[2] {
					found = true
					if !x.ti.isLeaf(stt.Field(i).Type()) {
						cfail("%s: elems(s).f: field %s is not a scalar", x.P.posStr(cl.Pos), m[2])
					}
					out = append(out, target{kind: "elemfield", sort: x.ti.sortOf(stt.Field(i).Type()), addr: x.c.SlPtr(sv), fld: i,
						lo: x.c.SlOff(sv), hi: x.c.BVBin("bvadd", x.c.SlOff(sv), x.c.SlLen(sv))})
				}
			}
			if !found {
				cfail("%s: no field %s in element type of %s", x.P.posStr(cl.Pos), m[2], m[1])
			}
			continue
		}
		if strings.HasPrefix(txt, "elems(") || strings.HasPrefix(txt, "mapof(") {
			comp := fr.compile(tc, loop, nil)
			env := fr.newEnv(comp, st, loop, extra, tc)
			call := ast.Unparen(comp.body).(*ast.CallExpr)
			fr.quiet++
			if strings.HasPrefix(txt, "mapof(") {
				mv := env.eval(call.Args[0])
				mt := env.typeOf(call.Args[0]).Underlying().(*types.Map)
				ks, vs := mapKeys(x, mt)
				out = append(out, target{kind: "cell", sort: "mapP|" + ks, addr: mv}, target{kind: "cell", sort: "mapV|" + ks + "|" + vs, addr: mv})
				fr.quiet--
				continue
			}
			sv := env.eval(call.Args[0])
			elemT := env.typeOf(call.Args[0]).Underlying().(*types.Slice).Elem()
			var lo, hi *Term
			if len(call.Args) == 3 {
				lo = x.c.BVBin("bvadd", x.c.SlOff(sv), fr.toIndex(env.eval(call.Args[1]), env.typeOf(call.Args[1])))
				hi = x.c.BVBin("bvadd", x.c.SlOff(sv), fr.toIndex(env.eval(call.Args[2]), env.typeOf(call.Args[2])))
			} else {
				lo = x.c.SlOff(sv)
				hi = x.c.BVBin("bvadd", x.c.SlOff(sv), x.c.SlLen(sv))
			}
			fr.quiet--
			leafs := map[string]bool{}
			x.leafSorts(elemT, leafs)
			if !x.ti.isLeaf(elemT) {
				// elements that are structs of scalar fields: exactly those fields of the elements in range
				if stt, ok := types.Unalias(elemT).Underlying().(*types.Struct); ok {
					flat := true
					for i := 0; i < stt.NumFields(); i++ {
						if !x.ti.isLeaf(stt.Field(i).Type()) {
							flat = false
						}
					}
					if flat {
						for i := 0; i < stt.NumFields(); i++ {
							out = append(out, target{kind: "elemfield", sort: x.ti.sortOf(stt.Field(i).Type()), addr: x.c.SlPtr(sv), fld: i, lo: lo, hi: hi})
						}
						continue
					}
				}
				// other struct elements: any descendant of an element; approximate by whole-array membership on root+prefix is not expressible: use sort-level
				for _, k := range sortedKeys(leafs) {
					out = append(out, target{kind: "sort", sort: k})
				}
				continue
			}
			for _, k := range sortedKeys(leafs) {
				out = append(out, target{kind: "elems", sort: k, addr: x.c.SlPtr(sv), lo: lo, hi: hi})
			}
			continue
		}
		// lvalue
		lc := &Clause{Kind: "target", Text: "&(" + txt + ")", Pos: tc.Pos}
		if cached, ok := fr.targetCache[tc]; ok && len(cached) == 1 {
			lc = cached[0]
		} else {
			fr.targetCache[tc] = []*Clause{lc}
		}
		comp := fr.compile(lc, loop, nil)
		env := fr.newEnv(comp, st, loop, extra, lc)
		fr.quiet++
		ue := ast.Unparen(comp.body).(*ast.UnaryExpr)
		pl := env.place(ue.X)
		fr.quiet--
		if pl.addr == nil {
			cfail("%s: assigns target %s is not a memory location", x.P.posStr(cl.Pos), txt)
		}
		out = append(out, fr.cellsOf(pl.addr, pl.typ)...)
	}
	return out
}

func (fr *Frame) newEnv(comp *Compiled, st *State, loop *Loop, extra map[string]*Term, cl *Clause) *Env {
	env := &Env{fr: fr, comp: comp, st: st, old: fr.entry, vars: map[types.Object]*Term{}, loop: loop}
	if env.old == nil {
		env.old = st
	}
	for _, f := range comp.lit.Type.Params.List {
		for _, nm := range f.Names {
			obj := comp.info.Defs[nm]
			t := fr.resolveName(nm.Name, st, loop, extra, loop == nil)
			if t == nil {
				cfail("%s: contract of %s: cannot resolve %q\n    %s", fr.x.P.posStr(cl.Pos), shortKey(fr.key), nm.Name, cl.Text)
			}
			env.vars[obj] = t
		}
	}
	return env
}

func (fr *Frame) cellsOf(addr *Term, t types.Type) []target {
	x := fr.x
	if x.ti.isLeaf(t) {
		return []target{{kind: "cell", sort: x.ti.sortOf(t), addr: addr}}
	}
	var out []target
	switch u := types.Unalias(t).Underlying().(type) {
	case *types.Struct:
		for i := 0; i < u.NumFields(); i++ {
			out = append(out, fr.cellsOf(x.c.RSub(addr, i), u.Field(i).Type())...)
		}
	case *types.Array:
		if x.ti.isLeaf(u.Elem()) {
			out = append(out, target{kind: "elems", sort: x.ti.sortOf(u.Elem()), addr: addr, lo: x.c.BV(0, 64), hi: x.c.BV(uint64(u.Len()), 64)})
		} else {
			leafs := map[string]bool{}
			x.leafSorts(u.Elem(), leafs)
			for _, k := range sortedKeys(leafs) {
				out = append(out, target{kind: "sort", sort: k})
			}
		}
	}
	return out
}

// assignSorts: which memory components an assigns clause may touch (types only).
func (fr *Frame) assignSorts(cl *Clause, sorts, ghosts map[string]bool, all *bool) {
	x := fr.x
	for _, tc := range fr.targetClauses(cl) {
		txt := tc.Text
		switch {
		case txt == "nothing":
			continue
		case txt == "everything":
			*all = true
			continue
		}
		if fr.contract != nil {
			isGhost := false
			for _, g := range fr.contract.Ghosts {
				if g.Ghost == txt {
					isGhost = true
				}
			}
			if isGhost {
				ghosts[txt] = true
				continue
			}
		}
		func() {
			defer func() {
				if r := recover(); r != nil {
					if _, ok := r.(*ContractError); ok {
						*all = true
						return
					}
					panic(r)
				}
			}()
			if m := elemFieldRe.FindStringSubmatch(txt); m != nil {
				sc := &Clause{Kind: "target", Text: m[1], Pos: tc.Pos}
				comp := fr.compile(sc, nil, nil)
				if sl, ok := comp.resultType.Underlying().(*types.Slice); ok {
					if stt, ok := sl.Elem().Underlying().(*types.Struct); ok {
						for i := 0; i < stt.NumFields(); i++ {
							if stt.Field(i).Name() == m[2] {
								x.leafSorts(stt.Field(i).Type(), sorts)
								return
							}
						}
					}
				}
				*all = true
				return
			}
			if strings.HasPrefix(txt, "elems(") || strings.HasPrefix(txt, "mapof(") {
				comp := fr.compile(tc, nil, nil)
				call := ast.Unparen(comp.body).(*ast.CallExpr)
				at := comp.info.Types[call.Args[0]].Type
				switch u := at.Underlying().(type) {
				case *types.Slice:
					x.leafSorts(u.Elem(), sorts)
				case *types.Map:
					ks, vs := mapKeys(x, u)
					sorts["mapP|"+ks] = true
					sorts["mapV|"+ks+"|"+vs] = true
				}
				return
			}
			lc := &Clause{Kind: "target", Text: "&(" + txt + ")", Pos: tc.Pos}
			comp := fr.compile(lc, nil, nil)
			ue := ast.Unparen(comp.body).(*ast.UnaryExpr)
			x.leafSorts(comp.info.Types[ue.X].Type, sorts)
		}()
	}
}

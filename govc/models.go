package main

// models.go: assumed contracts ("defined by construction") for library
// functions, written directly as term constructions, and the list of library
// calls declared effect-free.

import (
	"fmt"
	"go/token"
	"go/types"
	"strings"

	"golang.org/x/tools/go/ssa"
)

type mctx struct {
	fr   *Frame
	s    *State
	g    *Term
	args []*Term
	sig  *types.Signature
	pos  token.Pos
	key  string
}

type model struct {
	fn     func(m *mctx) *Term
	writes func(x *Exec, call *ssa.CallCommon, sorts map[string]bool)
	note   string
}

func (m *model) apply(fr *Frame, s *State, g *Term, call *ssa.CallCommon, args []*Term, pos token.Pos) *Term {
	if m.note != "" {
		fr.x.note(m.note)
	}
	return m.fn(&mctx{fr: fr, s: s, g: g, args: args, sig: call.Signature(), pos: pos})
}

func (m *model) applySpec(fr *Frame, s *State, args []*Term, sig *types.Signature) *Term {
	if m.note != "" {
		fr.x.note(m.note)
	}
	fr.quiet++
	defer func() { fr.quiet-- }()
	return m.fn(&mctx{fr: fr, s: s.clone(), g: fr.x.c.True(), args: args, sig: sig})
}

var models map[string]*model

func lookupModel(key string) *model {
	if models == nil {
		initModels()
	}
	return models[key]
}

var effectFreePrefixes = []string{
	"log/slog.", "fmt.", "errors.", "strconv.", "strings.", "unicode.", "unicode/utf8.", "math.", "math/bits.",
	"github.com/rcrowley/go-metrics.", "context.", "net/netip.", "time.", "(error).", "encoding/hex.", "path/filepath.", "net.", "reflect.",
	"github.com/slackhq/nebula/logging.",
}

// individual pure functions of packages that also contain mutating ones
var effectFreeExact = map[string]bool{"slices.Equal": true, "slices.Contains": true, "slices.Index": true, "slices.IndexFunc": true, "slices.ContainsFunc": true,
	"bytes.Equal": true, "bytes.Compare": true, "bytes.HasPrefix": true, "sort.SearchInts": true, "maps.Keys": true}

var effectFreeExcept = []string{"time.Sleep", "time.AfterFunc", "time.NewTimer", "time.NewTicker", "strings.(*Builder)", "net.Listen", "net.Dial", "time.(*Timer)", "time.(*Ticker)",
	"net.(*", "fmt.Fp", "fmt.Fs", "fmt.Sscan", "fmt.Print"}

func isEffectFree(key string) bool {
	if effectFreeExact[key] {
		return true
	}
	for _, e := range effectFreeExcept {
		if strings.HasPrefix(key, e) {
			return false
		}
	}
	for _, p := range effectFreePrefixes {
		if strings.HasPrefix(key, p) {
			return true
		}
	}
	return false
}

func tuple(c *Ctx, ts ...*Term) *Term { return c.mk("tuple", "Tuple", 0, "", ts, nil, nil) }

// byte at index i (BV64) of slice sv in state s
func (x *Exec) byteAt(s *State, sv *Term, i uint64) *Term {
	return x.c.Select(x.memOf(s, SBV(8)), x.sliceElemAddr(sv, x.c.BV(i, 64)))
}

func (m *mctx) needLen(sv *Term, n uint64, what string) {
	c := m.fr.x.c
	m.fr.oblige("bounds", "", m.pos, m.g, c.BVCmp("bvuge", c.SlLen(sv), c.BV(n, 64)), what)
}

func getUint(m *mctx, sv *Term, n int, big bool) *Term {
	x := m.fr.x
	c := x.c
	m.needLen(sv, uint64(n), fmt.Sprintf("binary.Uint%d needs %d bytes", n*8, n))
	var r *Term
	for i := 0; i < n; i++ {
		idx := i
		if !big {
			idx = n - 1 - i
		}
		b := x.byteAt(m.s, sv, uint64(idx))
		if r == nil {
			r = b
		} else {
			r = c.Concat(r, b)
		}
	}
	return r
}

func putUint(m *mctx, sv, v *Term, n int, big bool) *Term {
	x := m.fr.x
	c := x.c
	m.needLen(sv, uint64(n), fmt.Sprintf("binary.PutUint%d needs %d bytes", n*8, n))
	mem := x.memOf(m.s, SBV(8))
	for i := 0; i < n; i++ {
		// byte i (big endian): bits [(n-1-i)*8+7 : (n-1-i)*8]
		sh := n - 1 - i
		if !big {
			sh = i
		}
		b := c.Extract(sh*8+7, sh*8, v)
		mem = c.Store(mem, x.sliceElemAddr(sv, c.BV(uint64(i), 64)), b)
	}
	m.s.mem[SBV(8)] = mem
	return nil
}

func writesBytes(x *Exec, call *ssa.CallCommon, sorts map[string]bool) { sorts[SBV(8)] = true }

func initModels() {
	models = map[string]*model{}
	for _, e := range []struct {
		name string
		big  bool
	}{{"bigEndian", true}, {"littleEndian", false}, {"nativeEndian", false}} {
		e := e
		note := ""
		if e.name == "nativeEndian" {
			note = "binary.NativeEndian is little-endian (amd64/arm64 targets)"
		}
		for _, n := range []int{2, 4, 8} {
			n := n
			models[fmt.Sprintf("encoding/binary.(%s).Uint%d", e.name, n*8)] = &model{note: note, fn: func(m *mctx) *Term { return getUint(m, m.args[1], n, e.big) }}
			models[fmt.Sprintf("encoding/binary.(%s).PutUint%d", e.name, n*8)] = &model{note: note, fn: func(m *mctx) *Term { return putUint(m, m.args[1], m.args[2], n, e.big) }, writes: writesBytes}
		}
	}
	uf := func(name string, ret string) *model {
		return &model{fn: func(m *mctx) *Term { return m.fr.x.c.UF(name, ret, m.args...) }}
	}
	models["math/bits.OnesCount64"] = &model{fn: func(m *mctx) *Term {
		c := m.fr.x.c
		r := c.UF("bits_OnesCount64", SBV(64), m.args[0])
		m.fr.x.assumeRawClosed(c.BVCmp("bvule", r, c.BV(64, 64)))
		return r
	}}
	models["math/bits.OnesCount32"] = uf("bits_OnesCount32", SBV(64))
	models["math/bits.LeadingZeros64"] = uf("bits_LeadingZeros64", SBV(64))
	models["math/bits.TrailingZeros64"] = uf("bits_TrailingZeros64", SBV(64))
	models["math/bits.Len64"] = uf("bits_Len64", SBV(64))
	models["math/bits.Mul64"] = &model{fn: func(m *mctx) *Term {
		c := m.fr.x.c
		a := c.ZeroExt(m.args[0], 128)
		b := c.ZeroExt(m.args[1], 128)
		p := c.BVBin("bvmul", a, b)
		return tuple(c, c.Extract(127, 64, p), c.Extract(63, 0, p))
	}}
	models["math/bits.Add64"] = &model{fn: func(m *mctx) *Term {
		c := m.fr.x.c
		a := c.ZeroExt(m.args[0], 65)
		b := c.ZeroExt(m.args[1], 65)
		cy := c.ZeroExt(m.args[2], 65)
		p := c.BVBin("bvadd", c.BVBin("bvadd", a, b), cy)
		return tuple(c, c.Extract(63, 0, p), c.ZeroExt(c.Extract(64, 64, p), 64))
	}}
	models["math/bits.Div64"] = &model{fn: func(m *mctx) *Term {
		c := m.fr.x.c
		hi, lo, y := m.args[0], m.args[1], m.args[2]
		m.fr.oblige("div", "", m.pos, m.g, c.And(c.Neq(y, c.BV(0, 64)), c.BVCmp("bvult", hi, y)), "bits.Div64: y != 0 and hi < y")
		n := c.Concat(hi, lo)
		d := c.ZeroExt(y, 128)
		return tuple(c, c.Extract(63, 0, c.BVBin("bvudiv", n, d)), c.Extract(63, 0, c.BVBin("bvurem", n, d)))
	}}
	// ---- strconv: parsing is a deterministic function of the string (value and error are uninterpreted functions of
	// the arguments; a nil error implies the value fits the requested bit size) ----
	parseInt := func(c *Ctx, m *mctx, str, base, bits *Term) *Term {
		val := c.UF("strconv_parseint_val", SBV(64), str, base, bits)
		err := c.UF("strconv_parseint_err", SIface, str, base, bits)
		ok := c.Eq(err, c.nilIface())
		b32 := c.Eq(bits, c.BV(32, 64))
		m.fr.x.assume(m.g, c.Implies(c.And(ok, b32), c.And(c.BVCmp("bvsge", val, c.BV(0xffffffff80000000, 64)), c.BVCmp("bvsle", val, c.BV(0x7fffffff, 64)))))
		return tuple(c, val, err)
	}
	models["strconv.ParseInt"] = &model{note: "strconv.ParseInt/Atoi modelled as uninterpreted functions of their arguments", fn: func(m *mctx) *Term {
		c := m.fr.x.c
		return parseInt(c, m, m.args[0], m.args[1], m.args[2])
	}}
	models["strconv.Atoi"] = &model{note: "strconv.ParseInt/Atoi modelled as uninterpreted functions of their arguments", fn: func(m *mctx) *Term {
		c := m.fr.x.c
		return parseInt(c, m, m.args[0], c.BV(10, 64), c.BV(0, 64))
	}}
	// ---- bart.Lite: membership in an (immutable while in use) prefix set is a deterministic function of the table's
	// address and the IP address; contracts name it as liteContains(table, ip) ----
	models["github.com/gaissmai/bart.(*liteTable).Contains"] = &model{note: "bart.Lite.Contains modelled as an uninterpreted function of (table, address); tables are not modified while in use", fn: func(m *mctx) *Term {
		c := m.fr.x.c
		return c.UF("bart_lite_contains", SBool, m.args[0], m.args[1])
	}}
	models["bytes.Equal"] = &model{fn: func(m *mctx) *Term {
		x := m.fr.x
		c := x.c
		a, b := m.args[0], m.args[1]
		// `abstract bytes.Equal` in the contract of the function being verified: equality of contents as an
		// uninterpreted function of the two slices and the byte memory (enough where only "the same comparison" matters)
		top := m.fr
		for top.parent != nil && !top.top {
			top = top.parent
		}
		if top.contract != nil {
			for _, ab := range top.contract.Abstract {
				if ab == "bytes.Equal" {
					x.note("bytes.Equal abstracted to an uninterpreted function of its arguments and the byte memory in " + shortKey(top.key))
					return c.UF("bytes_equal_abs", SBool, a, b, x.memOf(m.s, SBV(8)))
				}
			}
		}
		i := c.BVar("i", SBV(64))
		mem := x.memOf(m.s, SBV(8))
		return c.And(c.Eq(c.SlLen(a), c.SlLen(b)), c.Forall([]*Term{i}, c.Implies(c.BVCmp("bvult", i, c.SlLen(a)),
			c.Eq(c.Select(mem, x.sliceElemAddr(a, i)), c.Select(mem, x.sliceElemAddr(b, i))))))
	}}
	nonNilErr := &model{fn: func(m *mctx) *Term {
		c := m.fr.x.c
		r := c.Fresh("err", SIface)
		m.fr.x.assume(m.g, c.Neq(r, c.nilIface()))
		return r
	}}
	models["errors.New"] = nonNilErr
	models["fmt.Errorf"] = nonNilErr

	// ---- sync ----
	setBool := func(v bool) *model {
		return &model{fn: func(m *mctx) *Term {
			x := m.fr.x
			m.s.mem[SBool] = x.c.Store(x.memOf(m.s, SBool), m.args[0], x.c.Bool(v))
			return nil
		}, writes: func(x *Exec, call *ssa.CallCommon, sorts map[string]bool) { sorts[SBool] = true }}
	}
	for _, t := range []string{"Mutex", "RWMutex"} {
		models["sync.(*"+t+").Lock"] = setBool(true)
		models["sync.(*"+t+").Unlock"] = setBool(false)
	}
	models["sync.(*RWMutex).RLock"] = setBool(true)
	models["sync.(*RWMutex).RUnlock"] = setBool(false)

	// ---- sync/atomic ----
	for _, t := range []struct {
		name string
		sort string
	}{{"Uint64", SBV(64)}, {"Int64", SBV(64)}, {"Uint32", SBV(32)}, {"Int32", SBV(32)}, {"Bool", SBool}} {
		t := t
		w := func(x *Exec, call *ssa.CallCommon, sorts map[string]bool) { sorts[t.sort] = true }
		note := "sync/atomic operations are atomic single-cell reads/writes (interleavings not explored)"
		models["sync/atomic.(*"+t.name+").Load"] = &model{note: note, fn: func(m *mctx) *Term {
			return m.fr.x.c.Select(m.fr.x.memOf(m.s, t.sort), m.args[0])
		}}
		models["sync/atomic.(*"+t.name+").Store"] = &model{note: note, writes: w, fn: func(m *mctx) *Term {
			x := m.fr.x
			m.s.mem[t.sort] = x.c.Store(x.memOf(m.s, t.sort), m.args[0], m.args[1])
			return nil
		}}
		models["sync/atomic.(*"+t.name+").Swap"] = &model{note: note, writes: w, fn: func(m *mctx) *Term {
			x := m.fr.x
			old := x.c.Select(x.memOf(m.s, t.sort), m.args[0])
			m.s.mem[t.sort] = x.c.Store(x.memOf(m.s, t.sort), m.args[0], m.args[1])
			return old
		}}
		models["sync/atomic.(*"+t.name+").CompareAndSwap"] = &model{note: note, writes: w, fn: func(m *mctx) *Term {
			x := m.fr.x
			c := x.c
			old := c.Select(x.memOf(m.s, t.sort), m.args[0])
			ok := c.Eq(old, m.args[1])
			m.s.mem[t.sort] = c.Store(x.memOf(m.s, t.sort), m.args[0], c.Ite(ok, m.args[2], old))
			return ok
		}}
		if t.sort != SBool {
			models["sync/atomic.(*"+t.name+").Add"] = &model{note: note, writes: w, fn: func(m *mctx) *Term {
				x := m.fr.x
				c := x.c
				nv := c.BVBin("bvadd", c.Select(x.memOf(m.s, t.sort), m.args[0]), m.args[1])
				m.s.mem[t.sort] = c.Store(x.memOf(m.s, t.sort), m.args[0], nv)
				return nv
			}}
		}
	}
	models["sync/atomic.(*Pointer).Load"] = &model{fn: func(m *mctx) *Term {
		x := m.fr.x
		r := x.c.Select(x.memOf(m.s, SRef), m.args[0])
		x.assumeWF(m.g, r, nil, m.s)
		return r
	}}
	models["sync/atomic.(*Pointer).Store"] = &model{writes: func(x *Exec, call *ssa.CallCommon, sorts map[string]bool) { sorts[SRef] = true }, fn: func(m *mctx) *Term {
		x := m.fr.x
		m.s.mem[SRef] = x.c.Store(x.memOf(m.s, SRef), m.args[0], m.args[1])
		return nil
	}}

	// net.CIDRMask(ones, bits): nil unless bits is 32 or 128 and 0 <= ones <= bits; else bits/8 fresh
	// bytes with `ones` leading one-bits (defined by construction from the net package documentation).
	models["net.CIDRMask"] = &model{writes: writesBytes, note: "net.CIDRMask modelled by construction: bits/8 bytes with `ones` leading 1-bits, nil for invalid arguments", fn: func(m *mctx) *Term {
		x := m.fr.x
		c := x.c
		ones, bits := m.args[0], m.args[1]
		valid := c.And(c.Or(c.Eq(bits, c.BV(32, 64)), c.Eq(bits, c.BV(128, 64))), c.BVCmp("bvsge", ones, c.BV(0, 64)), c.BVCmp("bvsle", ones, bits))
		l := c.BVBin("bvlshr", bits, c.BV(3, 64))
		base := c.Obj(m.s.alloc)
		m.s.alloc = c.IntBin("+", m.s.alloc, c.Int(1))
		old := x.memOf(m.s, SBV(8))
		nm := c.Fresh("mem_cidrmask", old.sort)
		r := c.BVar("r", SRef)
		idx := c.Sel("pelem_idx", SBV(64), c.RPath(r))
		rem := c.BVBin("bvsub", ones, c.BVBin("bvshl", idx, c.BV(3, 64))) // ones - 8*idx
		sh := c.Extract(7, 0, c.BVBin("bvsub", c.BV(8, 64), rem))
		bytev := c.Ite(c.BVCmp("bvsge", rem, c.BV(8, 64)), c.BV(0xff, 8), c.Ite(c.BVCmp("bvsle", rem, c.BV(0, 64)), c.BV(0, 8), c.BVBin("bvshl", c.BV(0xff, 8), sh)))
		in := c.And(x.isElemOf(r, base), c.BVCmp("bvult", idx, l))
		x.assume(m.g, c.Forall([]*Term{r}, c.Ite(in, c.Eq(c.Select(nm, r), bytev), c.Eq(c.Select(nm, r), c.Select(old, r))), c.Select(nm, r)))
		m.s.mem[SBV(8)] = nm
		return c.Ite(valid, c.MkSlice(base, c.BV(0, 64), l, l), c.NilSlice())
	}}
	initNetipModels()
	initTimeModels()
}

// ---------- net/netip ----------
//
// Addr = (hi, lo, z) with z: 0 invalid, 1 IPv4, 2 IPv6 without zone, >=3 IPv6 with a zone.
// IPv4 addresses are stored as hi=0, lo=0xffff_aabbccdd (as net/netip does).

const (
	z0 = 0
	z4 = 1
	z6 = 2
)

func (c *Ctx) addrHi(a *Term) *Term { return c.Sel("addr_hi", SBV(64), a) }
func (c *Ctx) addrLo(a *Term) *Term { return c.Sel("addr_lo", SBV(64), a) }
func (c *Ctx) addrZ(a *Term) *Term  { return c.Sel("addr_z", SBV(8), a) }
func (c *Ctx) mkAddr(hi, lo, z *Term) *Term {
	return c.App("mkaddr", "Addr", hi, lo, z)
}

func (c *Ctx) addrIs4(a *Term) *Term { return c.Eq(c.addrZ(a), c.BV(z4, 8)) }
func (c *Ctx) addrIs6(a *Term) *Term { return c.BVCmp("bvuge", c.addrZ(a), c.BV(z6, 8)) }
func (c *Ctx) addrIs4In6(a *Term) *Term {
	return c.And(c.addrIs6(a), c.Eq(c.addrHi(a), c.BV(0, 64)), c.Eq(c.BVBin("bvlshr", c.addrLo(a), c.BV(32, 64)), c.BV(0xffff, 64)))
}

func initNetipModels() {
	const p = "net/netip."
	pure := func(f func(c *Ctx, m *mctx) *Term) *model {
		return &model{fn: func(m *mctx) *Term { return f(m.fr.x.c, m) }, note: "net/netip value semantics modelled by construction (Addr = 128 bits + family/zone tag; IPv4 stored as ::ffff:a.b.c.d)"}
	}
	models[p+"(Addr).IsLoopback"] = pure(func(c *Ctx, m *mctx) *Term {
		// 127.0.0.0/8 (also as an IPv4-mapped IPv6 address) or ::1
		a := m.args[0]
		v4 := c.Or(c.addrIs4(a), c.addrIs4In6(a))
		b0 := c.BVBin("bvand", c.BVBin("bvlshr", c.addrLo(a), c.BV(24, 64)), c.BV(0xff, 64))
		return c.Ite(v4, c.Eq(b0, c.BV(127, 64)), c.And(c.addrIs6(a), c.Eq(c.addrHi(a), c.BV(0, 64)), c.Eq(c.addrLo(a), c.BV(1, 64))))
	})
	models[p+"(Addr).Is4"] = pure(func(c *Ctx, m *mctx) *Term { return c.addrIs4(m.args[0]) })
	models[p+"(Addr).Is6"] = pure(func(c *Ctx, m *mctx) *Term { return c.addrIs6(m.args[0]) })
	models[p+"(Addr).Is4In6"] = pure(func(c *Ctx, m *mctx) *Term { return c.addrIs4In6(m.args[0]) })
	models[p+"(Addr).IsValid"] = pure(func(c *Ctx, m *mctx) *Term { return c.Neq(c.addrZ(m.args[0]), c.BV(z0, 8)) })
	models[p+"(Addr).BitLen"] = pure(func(c *Ctx, m *mctx) *Term {
		a := m.args[0]
		return c.Ite(c.Eq(c.addrZ(a), c.BV(z0, 8)), c.BV(0, 64), c.Ite(c.addrIs4(a), c.BV(32, 64), c.BV(128, 64)))
	})
	models[p+"(Addr).Unmap"] = pure(func(c *Ctx, m *mctx) *Term {
		a := m.args[0]
		return c.Ite(c.addrIs4In6(a), c.mkAddr(c.addrHi(a), c.addrLo(a), c.BV(z4, 8)), a)
	})
	models[p+"(Addr).As4"] = pure(func(c *Ctx, m *mctx) *Term {
		a := m.args[0]
		m.fr.oblige("panic", "", m.pos, m.g, c.Or(c.addrIs4(a), c.addrIs4In6(a)), "Addr.As4 on an IPv4 or 4-in-6 address")
		arr := c.ConstArr(SArr(SBV(64), SBV(8)), c.BV(0, 8))
		for i := 0; i < 4; i++ {
			arr = c.Store(arr, c.BV(uint64(i), 64), c.Extract(31-8*i, 24-8*i, c.addrLo(a)))
		}
		return arr
	})
	models[p+"(Addr).As16"] = pure(func(c *Ctx, m *mctx) *Term {
		a := m.args[0]
		arr := c.ConstArr(SArr(SBV(64), SBV(8)), c.BV(0, 8))
		for i := 0; i < 8; i++ {
			arr = c.Store(arr, c.BV(uint64(i), 64), c.Extract(63-8*i, 56-8*i, c.addrHi(a)))
		}
		for i := 0; i < 8; i++ {
			arr = c.Store(arr, c.BV(uint64(8+i), 64), c.Extract(63-8*i, 56-8*i, c.addrLo(a)))
		}
		return arr
	})
	models[p+"IPv4Unspecified"] = pure(func(c *Ctx, m *mctx) *Term {
		return c.mkAddr(c.BV(0, 64), c.BV(0xffff00000000, 64), c.BV(z4, 8)) // 0.0.0.0
	})
	models[p+"IPv6Unspecified"] = pure(func(c *Ctx, m *mctx) *Term {
		return c.mkAddr(c.BV(0, 64), c.BV(0, 64), c.BV(z6, 8)) // ::
	})
	models[p+"AddrFrom4"] = pure(func(c *Ctx, m *mctx) *Term {
		arr := m.args[0]
		lo := c.BV(0xffff, 32)
		for i := 0; i < 4; i++ {
			lo = c.Concat(lo, c.Select(arr, c.BV(uint64(i), 64)))
		}
		return c.mkAddr(c.BV(0, 64), lo, c.BV(z4, 8))
	})
	models[p+"AddrFrom16"] = pure(func(c *Ctx, m *mctx) *Term {
		arr := m.args[0]
		var hi, lo *Term
		for i := 0; i < 8; i++ {
			b := c.Select(arr, c.BV(uint64(i), 64))
			if hi == nil {
				hi = b
			} else {
				hi = c.Concat(hi, b)
			}
		}
		for i := 8; i < 16; i++ {
			b := c.Select(arr, c.BV(uint64(i), 64))
			if lo == nil {
				lo = b
			} else {
				lo = c.Concat(lo, b)
			}
		}
		return c.mkAddr(hi, lo, c.BV(z6, 8))
	})
	models[p+"AddrFromSlice"] = &model{fn: func(m *mctx) *Term {
		x := m.fr.x
		c := x.c
		sv := m.args[0]
		var v4lo *Term = c.BV(0xffff, 32)
		for i := 0; i < 4; i++ {
			v4lo = c.Concat(v4lo, x.byteAt(m.s, sv, uint64(i)))
		}
		var hi, lo *Term
		for i := 0; i < 8; i++ {
			b := x.byteAt(m.s, sv, uint64(i))
			if hi == nil {
				hi = b
			} else {
				hi = c.Concat(hi, b)
			}
		}
		for i := 8; i < 16; i++ {
			b := x.byteAt(m.s, sv, uint64(i))
			if lo == nil {
				lo = b
			} else {
				lo = c.Concat(lo, b)
			}
		}
		is4 := c.Eq(c.SlLen(sv), c.BV(4, 64))
		is16 := c.Eq(c.SlLen(sv), c.BV(16, 64))
		a := c.Ite(is4, c.mkAddr(c.BV(0, 64), v4lo, c.BV(z4, 8)), c.Ite(is16, c.mkAddr(hi, lo, c.BV(z6, 8)), x.ti.zeroOfSort("Addr")))
		return tuple(c, a, c.Or(is4, is16))
	}}
	cmp := func(c *Ctx, a, b *Term) *Term { // -1,0,1 as BV64
		bl := func(t *Term) *Term {
			return c.Ite(c.Eq(c.addrZ(t), c.BV(z0, 8)), c.BV(0, 8), c.Ite(c.addrIs4(t), c.BV(32, 8), c.BV(128, 8)))
		}
		lt := c.Or(c.BVCmp("bvult", bl(a), bl(b)),
			c.And(c.Eq(bl(a), bl(b)), c.Or(c.BVCmp("bvult", c.addrHi(a), c.addrHi(b)),
				c.And(c.Eq(c.addrHi(a), c.addrHi(b)), c.Or(c.BVCmp("bvult", c.addrLo(a), c.addrLo(b)),
					c.And(c.Eq(c.addrLo(a), c.addrLo(b)), c.addrIs6(a), c.addrIs6(b), c.BVCmp("bvult", c.addrZ(a), c.addrZ(b))))))))
		return c.Ite(c.Eq(a, b), c.BV(0, 64), c.Ite(lt, c.BV(^uint64(0), 64), c.BV(1, 64)))
	}
	models[p+"(Addr).Compare"] = pure(func(c *Ctx, m *mctx) *Term { return cmp(c, m.args[0], m.args[1]) })
	models[p+"(Addr).Less"] = pure(func(c *Ctx, m *mctx) *Term { return c.Eq(cmp(c, m.args[0], m.args[1]), c.BV(^uint64(0), 64)) })

	// Prefix = (addr, bits+1 as uint8; 0 = invalid)
	pfxAddr := func(c *Ctx, t *Term) *Term { return c.Sel("pfx_addr", "Addr", t) }
	pfxB1 := func(c *Ctx, t *Term) *Term { return c.Sel("pfx_bits1", SBV(8), t) }
	models[p+"(Prefix).Addr"] = pure(func(c *Ctx, m *mctx) *Term { return pfxAddr(c, m.args[0]) })
	models[p+"(Prefix).Bits"] = pure(func(c *Ctx, m *mctx) *Term {
		return c.BVBin("bvsub", c.ZeroExt(pfxB1(c, m.args[0]), 64), c.BV(1, 64))
	})
	models[p+"(Prefix).IsValid"] = pure(func(c *Ctx, m *mctx) *Term { return c.BVCmp("bvugt", pfxB1(c, m.args[0]), c.BV(0, 8)) })
	models[p+"PrefixFrom"] = pure(func(c *Ctx, m *mctx) *Term {
		a, bits := m.args[0], m.args[1]
		bl := c.Ite(c.Eq(c.addrZ(a), c.BV(z0, 8)), c.BV(0, 64), c.Ite(c.addrIs4(a), c.BV(32, 64), c.BV(128, 64)))
		ok := c.And(c.BVCmp("bvsge", bits, c.BV(0, 64)), c.BVCmp("bvsle", bits, bl))
		// zone is stripped
		az := c.Ite(c.BVCmp("bvugt", c.addrZ(a), c.BV(z6, 8)), c.BV(z6, 8), c.addrZ(a))
		return c.App("mkprefix", "Prefix", c.mkAddr(c.addrHi(a), c.addrLo(a), az), c.Ite(ok, c.BVBin("bvadd", c.Extract(7, 0, bits), c.BV(1, 8)), c.BV(0, 8)))
	})
	// mask128(bits): top `bits` ones of a 128-bit value, as (hi, lo)
	maskHiLo := func(c *Ctx, bits *Term) (*Term, *Term) { // bits: BV64 in [0,128]
		ones := c.BV(^uint64(0), 64)
		sh := func(n *Term) *Term { // ones << (64-n) for n in [0,64]
			return c.BVBin("bvshl", ones, c.BVBin("bvsub", c.BV(64, 64), n))
		}
		le64 := c.BVCmp("bvule", bits, c.BV(64, 64))
		hi := c.Ite(le64, sh(bits), ones)
		lo := c.Ite(le64, c.BV(0, 64), sh(c.BVBin("bvsub", bits, c.BV(64, 64))))
		return hi, lo
	}
	models[p+"(Prefix).Masked"] = pure(func(c *Ctx, m *mctx) *Term {
		pf := m.args[0]
		a := pfxAddr(c, pf)
		bits := c.BVBin("bvsub", c.ZeroExt(pfxB1(c, pf), 64), c.BV(1, 64))
		eff := c.Ite(c.addrIs4(a), c.BVBin("bvadd", bits, c.BV(96, 64)), bits)
		mh, ml := maskHiLo(c, eff)
		valid := c.BVCmp("bvugt", pfxB1(c, pf), c.BV(0, 8))
		na := c.mkAddr(c.BVBin("bvand", c.addrHi(a), mh), c.BVBin("bvand", c.addrLo(a), ml), c.addrZ(a))
		return c.Ite(valid, c.App("mkprefix", "Prefix", na, pfxB1(c, pf)), m.fr.x.ti.zeroOfSort("Prefix"))
	})
	models[p+"(Prefix).Contains"] = pure(func(c *Ctx, m *mctx) *Term {
		pf, ip := m.args[0], m.args[1]
		a := pfxAddr(c, pf)
		bits := c.BVBin("bvsub", c.ZeroExt(pfxB1(c, pf), 64), c.BV(1, 64))
		valid := c.BVCmp("bvugt", pfxB1(c, pf), c.BV(0, 8))
		sameFam := c.Or(c.And(c.addrIs4(a), c.addrIs4(ip)), c.And(c.addrIs6(a), c.Eq(c.addrZ(ip), c.BV(z6, 8))))
		eff := c.Ite(c.addrIs4(a), c.BVBin("bvadd", bits, c.BV(96, 64)), bits)
		mh, ml := maskHiLo(c, eff)
		eq := c.And(c.Eq(c.BVBin("bvand", c.BVBin("bvxor", c.addrHi(a), c.addrHi(ip)), mh), c.BV(0, 64)),
			c.Eq(c.BVBin("bvand", c.BVBin("bvxor", c.addrLo(a), c.addrLo(ip)), ml), c.BV(0, 64)))
		return c.And(valid, sameFam, eq)
	})
	models[p+"(AddrPort).Addr"] = pure(func(c *Ctx, m *mctx) *Term { return c.Sel("ap_addr", "Addr", m.args[0]) })
	models[p+"(AddrPort).Port"] = pure(func(c *Ctx, m *mctx) *Term { return c.Sel("ap_port", SBV(16), m.args[0]) })
	models[p+"(AddrPort).IsValid"] = pure(func(c *Ctx, m *mctx) *Term {
		return c.Neq(c.addrZ(c.Sel("ap_addr", "Addr", m.args[0])), c.BV(z0, 8))
	})
	models[p+"AddrPortFrom"] = pure(func(c *Ctx, m *mctx) *Term { return c.App("mkaddrport", "AddrPort", m.args[0], m.args[1]) })
}

// ---------- time ----------
// time.Time is a signed 64-bit instant in nanoseconds; the zero Time is 0.

// clockOf: the ghost clock of a state (the last instant returned by time.Now).
func (x *Exec) clockOf(st *State) *Term {
	if t, ok := st.ghost["$clock"]; ok {
		return t
	}
	t := x.c.Var("clock0", SBV(64))
	x.assumeRawClosed(x.c.And(x.c.BVCmp("bvsge", t, x.c.BV(0, 64)), x.c.BVCmp("bvsle", t, x.c.BV(1<<62, 64))))
	st.ghost["$clock"] = t
	return t
}

func initTimeModels() {
	note := "time.Time modelled as a signed 64-bit nanosecond instant; Add/Sub do not saturate"
	mk := func(f func(c *Ctx, m *mctx) *Term) *model {
		return &model{note: note, fn: func(m *mctx) *Term { return f(m.fr.x.c, m) }}
	}
	models["time.Now"] = mk(func(c *Ctx, m *mctx) *Term {
		// real time does not run backwards: each reading is >= the previous one (ghost clock)
		x := m.fr.x
		t := c.Fresh("now", SBV(64))
		x.assume(m.g, c.And(c.BVCmp("bvsge", t, x.clockOf(m.s)), c.BVCmp("bvsle", t, c.BV(1<<62, 64))))
		m.s.ghost["$clock"] = t
		return t
	})
	models["time.(Time).Before"] = mk(func(c *Ctx, m *mctx) *Term { return c.BVCmp("bvslt", m.args[0], m.args[1]) })
	models["time.(Time).After"] = mk(func(c *Ctx, m *mctx) *Term { return c.BVCmp("bvsgt", m.args[0], m.args[1]) })
	models["time.(Time).Equal"] = mk(func(c *Ctx, m *mctx) *Term { return c.Eq(m.args[0], m.args[1]) })
	models["time.(Time).IsZero"] = mk(func(c *Ctx, m *mctx) *Term { return c.Eq(m.args[0], c.BV(0, 64)) })
	models["time.(Time).Sub"] = mk(func(c *Ctx, m *mctx) *Term {
		// t.Sub(u) saturates at the largest/smallest Duration instead of wrapping
		t, u := m.args[0], m.args[1]
		d := c.BVBin("bvsub", t, u)
		zero := c.BV(0, 64)
		tneg, uneg, dneg := c.BVCmp("bvslt", t, zero), c.BVCmp("bvslt", u, zero), c.BVCmp("bvslt", d, zero)
		ovf := c.And(c.Not(c.Eq(tneg, uneg)), c.Not(c.Eq(dneg, tneg)))
		return c.Ite(ovf, c.Ite(tneg, c.BV(1<<63, 64), c.BV(1<<63-1, 64)), d)
	})
	models["time.(Time).Add"] = mk(func(c *Ctx, m *mctx) *Term { return c.BVBin("bvadd", m.args[0], m.args[1]) })
	models["time.(Time).UnixNano"] = mk(func(c *Ctx, m *mctx) *Term { return c.UF("time_unixnano", SBV(64), m.args[0]) })
	models["time.(Time).Unix"] = mk(func(c *Ctx, m *mctx) *Term { return c.UF("time_unix", SBV(64), m.args[0]) })
	models["time.Unix"] = mk(func(c *Ctx, m *mctx) *Term { return c.UF("time_from_unix", SBV(64), m.args[0], m.args[1]) })
	models["time.Since"] = mk(func(c *Ctx, m *mctx) *Term { return c.BVBin("bvsub", c.Fresh("now", SBV(64)), m.args[0]) })
}

package main

// contract.go: parse //@ contract blocks from zz_verif_contracts.go files.
//
// Syntax (one clause per //@ line; a line that starts with "//@ func" opens a block):
//
//	//@ func (*Bits).Check            | func Encode | func (H).String | func pkgpath.Func (external, assumed)
//	//@   props C11 C12               properties this function's obligations count for
//	//@   pure                        spec function: inlined at use, never verified on its own
//	//@   inline                      real function without own contract: body inlined at call sites
//	//@   trusted <reason>            contract assumed, body not verified (listed as assumption)
//	//@   maypanic                    explicit panic(...) calls are allowed (not obligations)
//	//@   old NAME = EXPR             entry value
//	//@   ghost NAME TYPE = EXPR      ghost variable with initial value
//	//@   requires[label] EXPR
//	//@   ensures[label] EXPR
//	//@   assigns LVALUE, LVALUE...   (nothing | p.f | *p | elems(s) | elems(s, lo, hi) | ghost names)
//	//@   loop N invariant[label] EXPR
//	//@   loop N decreases EXPR
//	//@   loop N unroll K
//	//@   loop N assigns ...          (optional override of computed loop frame)
//	//@   callback NAME(args...) requires[label] EXPR
//	//@   callback NAME(args...) updates GHOST = EXPR
//	//@   callback NAME(args...) returns EXPR        (assume about result named `ret`)
//	//@   call N with NAME := EXPR   (ghost instantiation hints; reserved)
//	//@   quick skip LABEL...        obligations skipped (and not counted) in quick tier
//
// A clause may be continued on following lines that start with "//@     |".

import (
	"fmt"
	"go/ast"
	"go/token"
	"strconv"
	"strings"
)

type Clause struct {
	Kind  string // requires ensures invariant decreases callback-requires ...
	Label string
	Text  string
	Pos   token.Pos
	Loop  int
	// callback
	CbName string
	CbArgs []string
	Ghost  string // updates target / ghost name / old name
	Type   string // ghost type
	Matched int   // call-site clauses: number of call sites the clause was applied to in this run
}

type FuncContract struct {
	Key      string // canonical: "pkgpath.(*T).Name" or "pkgpath.Name"
	RawName  string
	PkgPath  string
	Props    []string
	Pure     bool
	Inline   bool
	Recursive int
	Trusted  string
	MayPanic bool
	Olds     []*Clause
	Ghosts   []*Clause
	Requires []*Clause
	Ensures  []*Clause
	Assigns  []*Clause // each clause text = comma separated lvalues
	HasAssigns bool
	LoopInv  map[int][]*Clause
	LoopDec  map[int]*Clause
	LoopUnroll map[int]int
	LoopAssigns map[int]*Clause
	Callbacks map[string]*CallbackContract
	QuickSkip map[string]bool
	Pos      token.Pos
	File     *ast.File
	Lemmas   bool
	Replay   []string
	CallGhosts []*Clause
	Cases    []*Clause
	LoopLemmas map[int][]*Clause
	ExitLemmas []*Clause
	Opaque   bool
	Reveal   []string
	AbstractDiv bool
	AssumedFrame string
	Closed   bool
	Abstract []string
	AtCalls  []*Clause
	Effects  []string
	CondEffects  []*Clause
	CallRequires []*Clause
	CallAssumes  []*Clause
	Yields       []*Clause         // LEN, KEY, VAL of the iterator the function returns
	RangeFuncInv map[int][]*Clause // invariants of range-over-func loops, by ordinal
}

type CallbackContract struct {
	Name     string
	Args     []string
	Requires []*Clause
	Updates  []*Clause
	Returns  []*Clause
	Pure     bool
}

func splitLabel(word string) (string, string) {
	if i := strings.Index(word, "["); i >= 0 && strings.HasSuffix(word, "]") {
		return word[:i], word[i+1 : len(word)-1]
	}
	return word, ""
}

// canonical key for a contract header name within package pkgPath.
// "Encode" -> pkg.Encode ; "(*Bits).Check" -> pkg.(*Bits).Check ; "a/b.(*T).M" external
func canonKey(pkgPath, name string) string {
	name = strings.TrimSpace(name)
	if strings.HasPrefix(name, "(") {
		return pkgPath + "." + name
	}
	// external: contains a dot before a "(" or contains "/"
	if i := strings.Index(name, ".("); i >= 0 {
		return name
	}
	if strings.Contains(name, ".") {
		return name
	}
	return pkgPath + "." + name
}

func parseContracts(fset *token.FileSet, f *ast.File, pkgPath string) ([]*FuncContract, error) {
	var out []*FuncContract
	var cur *FuncContract
	var lastClause *Clause
	for _, cg := range f.Comments {
		for _, cm := range cg.List {
			txt := cm.Text
			if !strings.HasPrefix(txt, "//@") {
				continue
			}
			line := strings.TrimSpace(txt[3:])
			if line == "" {
				continue
			}
			if strings.HasPrefix(line, "|") {
				if lastClause == nil {
					return nil, fmt.Errorf("%s: continuation without clause", fset.Position(cm.Pos()))
				}
				lastClause.Text += " " + strings.TrimSpace(line[1:])
				continue
			}
			word, rest := line, ""
			if i := strings.IndexAny(line, " \t"); i >= 0 {
				word, rest = line[:i], strings.TrimSpace(line[i+1:])
			}
			kw, label := splitLabel(word)
			if kw == "load" {
				continue // package dependency hint, handled by the driver
			}
			if kw == "func" {
				// "func NAME impl": a second contract of NAME that is only verified against the body and never used at call
				// sites (callers see the plain contract of NAME, typically a trusted frame abstraction)
				impl := ""
				if strings.HasSuffix(rest, " impl") {
					rest = strings.TrimSpace(strings.TrimSuffix(rest, " impl"))
					impl = implSuffix
				}
				cur = &FuncContract{RawName: rest, PkgPath: pkgPath, Key: canonKey(pkgPath, rest) + impl,
					LoopInv: map[int][]*Clause{}, LoopDec: map[int]*Clause{}, LoopUnroll: map[int]int{}, LoopAssigns: map[int]*Clause{},
					Callbacks: map[string]*CallbackContract{}, QuickSkip: map[string]bool{}, Pos: cm.Pos(), File: f}
				out = append(out, cur)
				lastClause = nil
				continue
			}
			if cur == nil {
				return nil, fmt.Errorf("%s: clause outside func block: %s", fset.Position(cm.Pos()), line)
			}
			cl := &Clause{Kind: kw, Label: label, Text: rest, Pos: cm.Pos()}
			lastClause = cl
			switch kw {
			case "props":
				cur.Props = append(cur.Props, strings.Fields(rest)...)
			case "pure":
				cur.Pure = true
			case "inline":
				cur.Inline = true
			case "opaque":
				// pure function whose definition is hidden (an uninterpreted function of its arguments)
				// except inside functions whose contract says `reveal NAME`
				cur.Pure = true
				cur.Opaque = true
			case "effect":
				// effect NAME...: every call of this function increments the caller's ghost counter NAME
				// effect NAME if EXPR: only when EXPR (over the callee's parameters and results) holds after the call
				if i := strings.Index(rest, " if "); i >= 0 {
					cl.Ghost, cl.Text = strings.TrimSpace(rest[:i]), strings.TrimSpace(rest[i+4:])
					cur.CondEffects = append(cur.CondEffects, cl)
					break
				}
				cur.Effects = append(cur.Effects, strings.Fields(rest)...)
			case "callrequires":
				// callrequires CALLEE EXPR : at every call of CALLEE made by this function, EXPR (over this function's
				// variables and arg0..argN, the call's actual arguments, receiver first) must hold
				fs := strings.SplitN(rest, " ", 2)
				if len(fs) != 2 {
					return nil, fmt.Errorf("%s: callrequires CALLEE EXPR", fset.Position(cm.Pos()))
				}
				cl.CbName, cl.Text = fs[0], strings.TrimSpace(fs[1])
				cur.CallRequires = append(cur.CallRequires, cl)
			case "callassumes":
				// callassumes CALLEE EXPR : after every call of CALLEE made by this function, EXPR (over this function's
				// variables and ret0..retN, the call's results) is ASSUMED: a fact about that call site which the callee's
				// own contract cannot state (e.g. what a closure passed to it returned). Listed as an assumption.
				fs := strings.SplitN(rest, " ", 2)
				if len(fs) != 2 {
					return nil, fmt.Errorf("%s: callassumes CALLEE EXPR", fset.Position(cm.Pos()))
				}
				cl.CbName, cl.Text = fs[0], strings.TrimSpace(fs[1])
				cur.CallAssumes = append(cur.CallAssumes, cl)
			case "abstractdiv":
				cur.AbstractDiv = true
			case "reveal":
				cur.Reveal = append(cur.Reveal, strings.Fields(rest)...)
			case "recursive":
				// recursive spec function: an uninterpreted function with its definition unfolded at each application (to the given depth, default 1)
				cur.Pure = true
				cur.Recursive = 1
				if n, err := strconv.Atoi(rest); err == nil && n > 0 {
					cur.Recursive = n
				}
			case "trusted":
				cur.Trusted = rest
				if rest == "" {
					cur.Trusted = "assumed"
				}
			case "assumedframe":
				// assumedframe REASON: the assigns clause is what callers may rely on but is not checked against the body
				// (used where the real footprint is a set of linked nodes the target language cannot name); listed as an assumption
				cur.AssumedFrame = rest
				if rest == "" {
					cur.AssumedFrame = "assumed"
				}
			case "atcall":
				// atcall CALLEE havoc TARGETS | assume EXPR | count GHOST : interference model for lock acquisition. At every
				// call of CALLEE made by this function, before the call takes effect: the targets get arbitrary values
				// (other threads ran while the lock was not held), the ghost counter is incremented, and EXPR (the lock's
				// invariant, over this function's variables) is assumed.
				fs := strings.SplitN(rest, " ", 3)
				if len(fs) != 3 || !(fs[1] == "havoc" || fs[1] == "assume" || fs[1] == "count") {
					return nil, fmt.Errorf("%s: atcall CALLEE havoc TARGETS | assume EXPR | count GHOST", fset.Position(cm.Pos()))
				}
				cl.CbName, cl.Kind, cl.Text = fs[0], "atcall-"+fs[1], strings.TrimSpace(fs[2])
				cur.AtCalls = append(cur.AtCalls, cl)
			case "abstract":
				// abstract NAME...: library functions whose model is replaced by an uninterpreted function in this proof
				cur.Abstract = append(cur.Abstract, strings.Fields(rest)...)
			case "closed":
				// every call the function makes must be accounted for (contract, model, inlined helper or effect-free library call)
				cur.Closed = true
			case "maypanic":
				cur.MayPanic = true
			case "cases":
				// proof by cases: every ensures clause is discharged separately under each case and under "none of them"
				cur.Cases = append(cur.Cases, cl)
			case "replay":
				cur.Replay = append(cur.Replay, rest)
			case "callghost":
				// callghost CALLEE NAME = EXPR : instance of the callee's rigid ghost NAME at calls made by this function
				e := strings.Index(rest, "=")
				fs := strings.Fields(rest[:max(e, 0)])
				if e < 0 || len(fs) != 2 {
					return nil, fmt.Errorf("%s: callghost CALLEE NAME = EXPR", fset.Position(cm.Pos()))
				}
				cl.CbName, cl.Ghost, cl.Text = fs[0], fs[1], strings.TrimSpace(rest[e+1:])
				cur.CallGhosts = append(cur.CallGhosts, cl)
			case "lemma":
				// ghost call of a lemma function at every return, before the ensures clauses are checked
				cur.ExitLemmas = append(cur.ExitLemmas, cl)
			case "old":
				i := strings.Index(rest, "=")
				if i < 0 {
					return nil, fmt.Errorf("%s: old NAME = EXPR", fset.Position(cm.Pos()))
				}
				cl.Ghost = strings.TrimSpace(rest[:i])
				cl.Text = strings.TrimSpace(rest[i+1:])
				cur.Olds = append(cur.Olds, cl)
			case "ghost":
				i := strings.Index(rest, "=")
				if i < 0 {
					// rigid ghost: "ghost NAME TYPE" — an arbitrary (universally quantified) logical value
					fs := strings.SplitN(rest, " ", 2)
					if len(fs) != 2 {
						return nil, fmt.Errorf("%s: ghost NAME TYPE [= EXPR]", fset.Position(cm.Pos()))
					}
					cl.Ghost, cl.Type, cl.Text = fs[0], strings.TrimSpace(fs[1]), ""
					cur.Ghosts = append(cur.Ghosts, cl)
					break
				}
				fs := strings.Fields(rest[:i])
				if len(fs) != 2 {
					return nil, fmt.Errorf("%s: ghost NAME TYPE = EXPR", fset.Position(cm.Pos()))
				}
				cl.Ghost, cl.Type = fs[0], fs[1]
				cl.Text = strings.TrimSpace(rest[i+1:])
				cur.Ghosts = append(cur.Ghosts, cl)
			case "requires":
				cur.Requires = append(cur.Requires, cl)
			case "ensures":
				cur.Ensures = append(cur.Ensures, cl)
			case "assigns":
				cur.Assigns = append(cur.Assigns, cl)
				cur.HasAssigns = true
			case "loop":
				fs := strings.SplitN(rest, " ", 3)
				if len(fs) < 3 {
					return nil, fmt.Errorf("%s: loop N KIND EXPR", fset.Position(cm.Pos()))
				}
				n, err := strconv.Atoi(fs[0])
				if err != nil {
					return nil, fmt.Errorf("%s: loop ordinal: %v", fset.Position(cm.Pos()), err)
				}
				if n < 1 {
					// ordinals are 1-based; a clause for loop 0 would match no loop and be silently ignored
					return nil, fmt.Errorf("%s: loop ordinal %d: loops are numbered from 1", fset.Position(cm.Pos()), n)
				}
				k, lab := splitLabel(fs[1])
				cl.Kind, cl.Label, cl.Text, cl.Loop = k, lab, strings.TrimSpace(fs[2]), n
				switch k {
				case "invariant":
					cur.LoopInv[n] = append(cur.LoopInv[n], cl)
				case "decreases":
					cur.LoopDec[n] = cl
				case "unroll":
					kk, err := strconv.Atoi(cl.Text)
					if err != nil {
						return nil, fmt.Errorf("%s: unroll K: %v", fset.Position(cm.Pos()), err)
					}
					cur.LoopUnroll[n] = kk
				case "assigns":
					cur.LoopAssigns[n] = cl
				case "lemma":
					// ghost call of a lemma function (verified separately) at the loop head and on the back edge
					if cur.LoopLemmas == nil {
						cur.LoopLemmas = map[int][]*Clause{}
					}
					cur.LoopLemmas[n] = append(cur.LoopLemmas[n], cl)
				default:
					return nil, fmt.Errorf("%s: unknown loop clause %q", fset.Position(cm.Pos()), k)
				}
			case "yields":
				// yields LEN ; KEY ; VAL : the function returns an iterator (iter.Seq2) that yields exactly LEN pairs, the
				// i-th being (KEY, VAL) with `rangeindex` standing for i, in order, until the consumer stops; all three
				// are expressions over the function's parameters, evaluated when the iterator is created
				parts := strings.Split(rest, " ; ")
				if len(parts) != 3 {
					return nil, fmt.Errorf("%s: yields LEN ; KEY ; VAL", fset.Position(cm.Pos()))
				}
				for _, p := range parts {
					pc := *cl
					pc.Kind, pc.Text = "yields", strings.TrimSpace(p)
					cur.Yields = append(cur.Yields, &pc)
				}
			case "rangefunc":
				// rangefunc N invariant EXPR : invariant of the N-th `for ... range <iterator function>` loop of the function
				// (`rangeindex` = number of pairs consumed so far)
				fs := strings.SplitN(rest, " ", 3)
				n, err := strconv.Atoi(fs[0])
				if len(fs) != 3 || err != nil {
					return nil, fmt.Errorf("%s: rangefunc N invariant EXPR", fset.Position(cm.Pos()))
				}
				k, lab := splitLabel(fs[1])
				if k != "invariant" {
					return nil, fmt.Errorf("%s: rangefunc N invariant EXPR", fset.Position(cm.Pos()))
				}
				cl.Kind, cl.Label, cl.Text = "invariant", lab, strings.TrimSpace(fs[2])
				if cur.RangeFuncInv == nil {
					cur.RangeFuncInv = map[int][]*Clause{}
				}
				cur.RangeFuncInv[n] = append(cur.RangeFuncInv[n], cl)
			case "callback":
				// NAME(args) KIND EXPR
				i := strings.Index(rest, ")")
				j := strings.Index(rest, "(")
				if i < 0 || j < 0 || j > i {
					return nil, fmt.Errorf("%s: callback NAME(args) KIND EXPR", fset.Position(cm.Pos()))
				}
				name := strings.TrimSpace(rest[:j])
				var args []string
				for _, a := range strings.Split(rest[j+1:i], ",") {
					if a = strings.TrimSpace(a); a != "" {
						args = append(args, a)
					}
				}
				tail := strings.TrimSpace(rest[i+1:])
				kword, ktext := tail, ""
				if k := strings.IndexAny(tail, " \t"); k >= 0 {
					kword, ktext = tail[:k], strings.TrimSpace(tail[k+1:])
				}
				kk, lab := splitLabel(kword)
				cb := cur.Callbacks[name]
				if cb == nil {
					cb = &CallbackContract{Name: name, Args: args}
					cur.Callbacks[name] = cb
				}
				cl.Kind, cl.Label, cl.Text, cl.CbName, cl.CbArgs = "callback-"+kk, lab, ktext, name, args
				switch kk {
				case "requires":
					cb.Requires = append(cb.Requires, cl)
				case "updates":
					e := strings.Index(ktext, "=")
					if e < 0 {
						return nil, fmt.Errorf("%s: callback updates GHOST = EXPR", fset.Position(cm.Pos()))
					}
					cl.Ghost = strings.TrimSpace(ktext[:e])
					cl.Text = strings.TrimSpace(ktext[e+1:])
					cb.Updates = append(cb.Updates, cl)
				case "returns":
					cb.Returns = append(cb.Returns, cl)
				case "pure":
					// the callback (a function parameter, or a function-valued struct field of that name) is assumed
					// not to write anything this function can observe
					cb.Pure = true
				default:
					return nil, fmt.Errorf("%s: unknown callback clause %q", fset.Position(cm.Pos()), kk)
				}
			case "quick":
				fs := strings.Fields(rest)
				if len(fs) > 0 && fs[0] == "skip" {
					for _, l := range fs[1:] {
						cur.QuickSkip[l] = true
					}
				}
			default:
				return nil, fmt.Errorf("%s: unknown contract clause %q", fset.Position(cm.Pos()), kw)
			}
		}
	}
	return out, nil
}

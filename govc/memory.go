package main

// memory.go: Go types -> SMT sorts, zero values, typed heap (one SMT array per leaf sort keyed by Ref).

import (
	"fmt"
	"go/types"
	"strings"

	"golang.org/x/tools/go/ssa"
)

type TypeInfo struct {
	c       *Ctx
	structs map[string]string // type string -> datatype name
	nstruct int
	special map[string]string
	tparams map[string]string
}

func newTypeInfo(c *Ctx) *TypeInfo {
	// the net/netip records are declared up front: library models build such values without going through sortOf
	c.DeclareRecord("Addr", "mkaddr", []string{"addr_hi", "addr_lo", "addr_z"}, []string{SBV(64), SBV(64), SBV(8)})
	c.DeclareRecord("Prefix", "mkprefix", []string{"pfx_addr", "pfx_bits1"}, []string{"Addr", SBV(8)})
	c.DeclareRecord("AddrPort", "mkaddrport", []string{"ap_addr", "ap_port"}, []string{"Addr", SBV(16)})
	return &TypeInfo{c: c, structs: map[string]string{}, tparams: map[string]string{}}
}

// specialNamed returns the SMT sort for specially modelled named types.
func (ti *TypeInfo) specialNamed(t types.Type) (string, bool) {
	n, ok := t.(*types.Named)
	if !ok {
		return "", false
	}
	obj := n.Obj()
	if obj.Pkg() == nil {
		return "", false
	}
	full := obj.Pkg().Path() + "." + obj.Name()
	switch full {
	case "net/netip.Addr":
		ti.c.DeclareRecord("Addr", "mkaddr", []string{"addr_hi", "addr_lo", "addr_z"}, []string{SBV(64), SBV(64), SBV(8)})
		return "Addr", true
	case "net/netip.Prefix":
		ti.specialNamed(lookupNamed(obj.Pkg(), "Addr"))
		ti.c.DeclareRecord("Prefix", "mkprefix", []string{"pfx_addr", "pfx_bits1"}, []string{"Addr", SBV(8)})
		return "Prefix", true
	case "net/netip.AddrPort":
		ti.specialNamed(lookupNamed(obj.Pkg(), "Addr"))
		ti.c.DeclareRecord("AddrPort", "mkaddrport", []string{"ap_addr", "ap_port"}, []string{"Addr", SBV(16)})
		return "AddrPort", true
	case "time.Time":
		return SBV(64), true
	case "sync/atomic.Uint64", "sync/atomic.Int64":
		return SBV(64), true
	case "sync/atomic.Uint32", "sync/atomic.Int32":
		return SBV(32), true
	case "sync/atomic.Bool":
		return SBool, true
	case "sync/atomic.Pointer", "sync/atomic.Value":
		return SRef, true
	case "sync.Mutex", "sync.RWMutex":
		return SBool, true
	case "sync.Once", "sync.WaitGroup":
		return SBool, true
	}
	return "", false
}

func lookupNamed(pkg *types.Package, name string) types.Type {
	o := pkg.Scope().Lookup(name)
	if o == nil {
		panic("no type " + name + " in " + pkg.Path())
	}
	return o.Type()
}

func (ti *TypeInfo) sortOf(t types.Type) string {
	if s, ok := ti.specialNamed(types.Unalias(t)); ok {
		return s
	}
	t = types.Unalias(t)
	if _, ok := t.(*types.TypeParam); ok {
		// a value of type-parameter type is opaque: modelled like a value boxed in `any`
		return SIface
	}
	switch u := t.Underlying().(type) {
	case *types.Basic:
		switch u.Kind() {
		case types.Bool, types.UntypedBool:
			return SBool
		case types.Int8, types.Uint8:
			return SBV(8)
		case types.Int16, types.Uint16:
			return SBV(16)
		case types.Int32, types.Uint32, types.UntypedRune:
			return SBV(32)
		case types.Int, types.Uint, types.Int64, types.Uint64, types.Uintptr, types.UntypedInt:
			return SBV(64)
		case types.String, types.UntypedString:
			return SStr
		case types.UnsafePointer:
			return SRef
		case types.Float32, types.Float64, types.UntypedFloat:
			ti.c.DeclareSort("Float")
			return "Float"
		case types.UntypedNil:
			return SRef
		}
		ti.c.DeclareSort("Opaque")
		return "Opaque"
	case *types.Pointer, *types.Map, *types.Chan, *types.Signature:
		return SRef
	case *types.Slice:
		return SSlice
	case *types.Array:
		return SArr(SBV(64), ti.sortOf(u.Elem()))
	case *types.Struct:
		return ti.structSort(t, u)
	case *types.Interface:
		return SIface
	case *types.Tuple:
		return "Tuple"
	}
	panic(fmt.Sprintf("sortOf: unsupported type %s", t))
}

func (ti *TypeInfo) structSort(t types.Type, u *types.Struct) string {
	key := types.TypeString(substTypeParams(t), nil)
	if n, ok := ti.structs[key]; ok {
		return n
	}
	var name string
	if n, ok := t.(*types.Named); ok {
		p := "x"
		if n.Obj().Pkg() != nil {
			p = n.Obj().Pkg().Name()
		}
		name = "S_" + sanitize(p) + "_" + sanitize(n.Obj().Name())
		if n.TypeArgs() != nil && n.TypeArgs().Len() > 0 {
			name += fmt.Sprintf("_i%d", len(ti.structs))
		}
	} else {
		ti.nstruct++
		name = fmt.Sprintf("S_anon%d", ti.nstruct)
	}
	for ti.c.dtSet[name] {
		name += "x"
	}
	ti.structs[key] = name
	var sels, sorts []string
	for i := 0; i < u.NumFields(); i++ {
		sels = append(sels, fmt.Sprintf("%s_f%d", name, i))
		sorts = append(sorts, ti.sortOf(u.Field(i).Type()))
	}
	ti.c.DeclareRecord(name, "mk_"+name, sels, sorts)
	return name
}

// isLeaf: stored as one cell in memory (not spread over sub-references).
func (ti *TypeInfo) isLeaf(t types.Type) bool {
	if _, ok := ti.specialNamed(types.Unalias(t)); ok {
		return true
	}
	switch types.Unalias(t).Underlying().(type) {
	case *types.Struct, *types.Array:
		return false
	}
	return true
}

func (ti *TypeInfo) zero(t types.Type) *Term {
	c := ti.c
	if s, ok := ti.specialNamed(types.Unalias(t)); ok {
		return ti.zeroOfSort(s)
	}
	switch u := types.Unalias(t).Underlying().(type) {
	case *types.Struct:
		s := ti.structSort(types.Unalias(t), u)
		var args []*Term
		for i := 0; i < u.NumFields(); i++ {
			args = append(args, ti.zero(u.Field(i).Type()))
		}
		return c.App("mk_"+s, s, args...)
	case *types.Array:
		return c.ConstArr(ti.sortOf(t), ti.zero(u.Elem()))
	}
	return ti.zeroOfSort(ti.sortOf(t))
}

func (ti *TypeInfo) zeroOfSort(s string) *Term {
	c := ti.c
	switch {
	case s == SBool:
		return c.False()
	case bvWidth(s) > 0:
		return c.BV(0, bvWidth(s))
	case s == SRef:
		return c.Null()
	case s == SSlice:
		return c.NilSlice()
	case s == SStr:
		return c.emptyStr()
	case s == SIface:
		return c.nilIface()
	case s == SInt:
		return c.Int(0)
	case s == "Addr":
		return c.App("mkaddr", "Addr", c.BV(0, 64), c.BV(0, 64), c.BV(0, 8))
	case s == "Prefix":
		return c.App("mkprefix", "Prefix", ti.zeroOfSort("Addr"), c.BV(0, 8))
	case s == "AddrPort":
		return c.App("mkaddrport", "AddrPort", ti.zeroOfSort("Addr"), c.BV(0, 16))
	case strings.HasPrefix(s, "(Array "):
		_, es, _ := arrParts(s)
		return c.ConstArr(s, ti.zeroOfSort(es))
	}
	return c.Var("zero_"+sanitize(s), s)
}

func (c *Ctx) emptyStr() *Term {
	t := c.Var("str_empty", SStr)
	if _, ok := c.symAxioms["str_empty"]; !ok {
		c.symAxioms["str_empty"] = []*Term{c.Eq(c.UF("str_len", SBV(64), t), c.BV(0, 64))}
	}
	return t
}
func (c *Ctx) nilIface() *Term { return c.Var("iface_nil", SIface) }
func (c *Ctx) StrLen(s *Term) *Term {
	return c.UF("str_len", SBV(64), s)
}
func (c *Ctx) StrAt(s, i *Term) *Term {
	return c.UF("str_at", SBV(8), s, i)
}
func (c *Ctx) IfaceTag(i *Term) *Term { return c.UF("iface_tag", SInt, i) }

// ---------- state & memory ----------

type deferred struct {
	call *ssa.CallCommon
	args []*Term
	fnv  *Term
	ins  *ssa.Defer
}

type State struct {
	regs   map[any]*Term    // ssa.Value -> term
	mem    map[string]*Term // leaf sort -> (Array Ref leaf); map memories under "mapP|K", "mapV|K|V"
	ep     *epoch           // names the symbols of memory components not yet touched
	alloc  *Term            // Int: next fresh object id
	ghost  map[string]*Term
	defers []deferred
}

func (s *State) clone() *State {
	n := &State{regs: make(map[any]*Term, len(s.regs)), mem: make(map[string]*Term, len(s.mem)), alloc: s.alloc, ghost: make(map[string]*Term, len(s.ghost)), ep: s.ep}
	for k, v := range s.regs {
		n.regs[k] = v
	}
	for k, v := range s.mem {
		n.mem[k] = v
	}
	for k, v := range s.ghost {
		n.ghost[k] = v
	}
	n.defers = append([]deferred(nil), s.defers...)
	return n
}

func (x *Exec) memOf(st *State, leaf string) *Term { return x.memByKey(st, leaf) }

// mapTag: maps of different Go types are different objects. The presence and
// value memories are shared between map types with the same key (and value)
// sorts, so this fact is what keeps e.g. a map[K]struct{} apart from a map[K]*T.
func (x *Exec) mapTag(m *Term, mt *types.Map) {
	if m.open {
		return
	}
	c := x.c
	k := types.TypeString(mt, nil)
	if x.mapTags == nil {
		x.mapTags = map[string]int64{}
	}
	id, ok := x.mapTags[k]
	if !ok {
		id = int64(len(x.mapTags) + 1)
		x.mapTags[k] = id
	}
	x.assumeRaw(c.Implies(c.Neq(m, c.Null()), c.Eq(c.UF("maptag", SInt, m), c.Int(id))))
}

func (x *Exec) mapPresent(st *State, ks string) *Term { return x.memByKey(st, "mapP|"+ks) }
func (x *Exec) mapVals(st *State, ks, vs string) *Term {
	return x.memByKey(st, "mapV|"+ks+"|"+vs)
}

// load a value of Go type t from address addr.
func (x *Exec) load(st *State, addr *Term, t types.Type) *Term {
	ti := x.ti
	c := x.c
	if ti.isLeaf(t) {
		return c.Select(x.memOf(st, ti.sortOf(t)), addr)
	}
	switch u := types.Unalias(t).Underlying().(type) {
	case *types.Struct:
		s := ti.structSort(types.Unalias(t), u)
		var args []*Term
		for i := 0; i < u.NumFields(); i++ {
			args = append(args, x.load(st, c.RSub(addr, i), u.Field(i).Type()))
		}
		return c.App("mk_"+s, s, args...)
	case *types.Array:
		n := u.Len()
		es := ti.sortOf(u.Elem())
		arr := c.ConstArr(SArr(SBV(64), es), ti.zero(u.Elem()))
		if n <= 64 {
			for i := int64(0); i < n; i++ {
				arr = c.Store(arr, c.BV(uint64(i), 64), x.load(st, c.RElem(addr, c.BV(uint64(i), 64)), u.Elem()))
			}
			return arr
		}
		// large array: fresh array constrained pointwise
		fa := c.Fresh("arrload", SArr(SBV(64), es))
		if ti.isLeaf(u.Elem()) {
			i := c.BVar("i", SBV(64))
			x.assumeRaw(c.Forall([]*Term{i}, c.Eq(c.Select(fa, i), c.Select(x.memOf(st, es), c.RElem(addr, i))), c.Select(fa, i)))
		}
		return fa
	}
	panic("load: unsupported type " + t.String())
}

// store a value of Go type t at addr.
func (x *Exec) store(st *State, addr *Term, t types.Type, v *Term) {
	ti := x.ti
	c := x.c
	if ti.isLeaf(t) {
		s := ti.sortOf(t)
		if v.sort != s {
			panic(fmt.Sprintf("store: value sort %s, want %s (type %s)", v.sort, s, t))
		}
		st.mem[s] = c.Store(x.memOf(st, s), addr, v)
		return
	}
	switch u := types.Unalias(t).Underlying().(type) {
	case *types.Struct:
		s := ti.structSort(types.Unalias(t), u)
		for i := 0; i < u.NumFields(); i++ {
			fv := c.Sel(fmt.Sprintf("%s_f%d", s, i), ti.sortOf(u.Field(i).Type()), v)
			x.store(st, c.RSub(addr, i), u.Field(i).Type(), fv)
		}
		return
	case *types.Array:
		n := u.Len()
		if n <= 64 {
			for i := int64(0); i < n; i++ {
				x.store(st, c.RElem(addr, c.BV(uint64(i), 64)), u.Elem(), c.Select(v, c.BV(uint64(i), 64)))
			}
			return
		}
		if ti.isLeaf(u.Elem()) {
			// bulk store: new memory equals v on the array's elements, old elsewhere
			es := ti.sortOf(u.Elem())
			old := x.memOf(st, es)
			nm := c.Fresh("mem_"+es, old.sort)
			r := c.BVar("r", SRef)
			i := c.BVar("i", SBV(64))
			x.assumeRaw(c.Forall([]*Term{i}, c.Implies(c.BVCmp("bvult", i, c.BV(uint64(n), 64)), c.Eq(c.Select(nm, c.RElem(addr, i)), c.Select(v, i))), c.Select(nm, c.RElem(addr, i))))
			x.assumeRaw(c.Forall([]*Term{r}, c.Or(x.isElemOf(r, addr), c.Eq(c.Select(nm, r), c.Select(old, r))), c.Select(nm, r)))
			st.mem[es] = nm
			return
		}
	}
	panic("store: unsupported type " + t.String())
}

// isElemOf(r, base): r == relem(base, i) for some i.
func (x *Exec) isElemOf(r, base *Term) *Term {
	c := x.c
	p := c.RPath(r)
	return c.And(c.Eq(c.RRoot(r), c.RRoot(base)), c.App("is-pelem", SBool, p), c.Eq(c.Sel("pelem_par", "Path", p), c.RPath(base)))
}

// element address of slice s at index i (BV64)
func (x *Exec) sliceElemAddr(s, i *Term) *Term {
	c := x.c
	return c.RElem(c.SlPtr(s), c.BVBin("bvadd", c.SlOff(s), i))
}

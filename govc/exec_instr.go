package main

// exec_instr.go: semantics of individual go/ssa instructions.

import (
	"fmt"
	"go/constant"
	"go/token"
	"go/types"
	"math/big"

	"golang.org/x/tools/go/ssa"
)

func isSignedType(t types.Type) bool {
	if t == nil {
		return false
	}
	if b, ok := types.Unalias(t).Underlying().(*types.Basic); ok {
		return b.Info()&types.IsInteger != 0 && b.Info()&types.IsUnsigned == 0
	}
	return false
}

func isIntType(t types.Type) bool {
	if b, ok := types.Unalias(t).Underlying().(*types.Basic); ok {
		return b.Info()&types.IsInteger != 0
	}
	return false
}

func isStringType(t types.Type) bool {
	if b, ok := types.Unalias(t).Underlying().(*types.Basic); ok {
		return b.Info()&types.IsString != 0
	}
	return false
}

func (x *Exec) constOfType(v constant.Value, t types.Type) *Term {
	c := x.c
	if v == nil { // nil / zero value
		return x.ti.zero(t)
	}
	srt := x.ti.sortOf(t)
	switch {
	case srt == SBool:
		return c.Bool(constant.BoolVal(v))
	case bvWidth(srt) > 0:
		w := bvWidth(srt)
		iv := constant.ToInt(v)
		if iv.Kind() != constant.Int {
			return c.Fresh("const", srt)
		}
		bi, _ := new(big.Int).SetString(iv.ExactString(), 10)
		m := new(big.Int).Lsh(big.NewInt(1), uint(w))
		bi.Mod(bi, m)
		return c.BV(bi.Uint64(), w)
	case srt == SStr:
		return x.strLit(constant.StringVal(v))
	}
	return c.Fresh("const", srt)
}

// instr executes one instruction; returns false if the block's control flow ended.
func (fr *Frame) instr(n *unode, s *State, g *Term, ins ssa.Instruction, rets *[]*retInfo) bool {
	x := fr.x
	c := x.c
	val := func(v ssa.Value) *Term { return fr.value(s, v) }
	switch ins := ins.(type) {
	case *ssa.DebugRef:
		return true
	case *ssa.Alloc:
		elem := ins.Type().Underlying().(*types.Pointer).Elem()
		addr := c.Obj(s.alloc)
		s.alloc = c.IntBin("+", s.alloc, c.Int(1))
		fr.zeroInit(s, addr, elem, g)
		s.regs[ins] = addr
	case *ssa.BinOp:
		s.regs[ins] = fr.binop(ins.Op, val(ins.X), val(ins.Y), ins.X.Type(), ins.Y.Type(), ins.Pos(), g)
	case *ssa.UnOp:
		s.regs[ins] = fr.unop(ins, s, g)
	case *ssa.Phi:
		panic("phi after non-phi")
	case *ssa.Call:
		r := fr.call(s, g, &ins.Call, ins, ins.Pos())
		if r != nil {
			s.regs[ins] = r
		}
	case *ssa.ChangeType:
		s.regs[ins] = val(ins.X)
	case *ssa.ChangeInterface:
		s.regs[ins] = val(ins.X)
	case *ssa.Convert:
		fr.unsafeCastCheck(s, g, ins)
		s.regs[ins] = fr.convert(val(ins.X), ins.X.Type(), ins.Type(), s, g)
	case *ssa.MultiConvert:
		s.regs[ins] = fr.convert(val(ins.X), ins.X.Type(), ins.Type(), s, g)
	case *ssa.Extract:
		t := val(ins.Tuple)
		if t.op != "tuple" {
			panic("extract from non-tuple")
		}
		s.regs[ins] = t.args[ins.Index]
	case *ssa.Field:
		sv := val(ins.X)
		st := types.Unalias(ins.X.Type()).Underlying().(*types.Struct)
		s.regs[ins] = fr.fieldOf(sv, ins.X.Type(), st, ins.Field)
	case *ssa.FieldAddr:
		p := val(ins.X)
		fr.oblige("nil", "", ins.Pos(), g, c.Neq(p, c.Null()), "field address through non-nil pointer")
		s.regs[ins] = c.RSub(p, ins.Field)
		if pt, ok := ins.Type().Underlying().(*types.Pointer); ok && !fr.spec {
			// (not in specification code: its locals are virtual objects that share allocation numbers)
			x.ptrTagElem(g, s.regs[ins], pt.Elem())
		}
	case *ssa.Index:
		xv := val(ins.X)
		iv := fr.toIndex(val(ins.Index), ins.Index.Type())
		switch u := types.Unalias(ins.X.Type()).Underlying().(type) {
		case *types.Array:
			fr.oblige("bounds", "", ins.Pos(), g, c.BVCmp("bvult", iv, c.BV(uint64(u.Len()), 64)), "array index in range")
			s.regs[ins] = c.Select(xv, iv)
		case *types.Basic: // string
			fr.oblige("bounds", "", ins.Pos(), g, c.BVCmp("bvult", iv, c.StrLen(xv)), "string index in range")
			s.regs[ins] = c.StrAt(xv, iv)
		default:
			// type parameter etc.
			s.regs[ins] = x.freshOf("index", ins.Type())
		}
	case *ssa.IndexAddr:
		xv := val(ins.X)
		iv := fr.toIndex(val(ins.Index), ins.Index.Type())
		switch u := types.Unalias(ins.X.Type()).Underlying().(type) {
		case *types.Slice:
			fr.oblige("bounds", "", ins.Pos(), g, c.BVCmp("bvult", iv, c.SlLen(xv)), "slice index in range")
			s.regs[ins] = x.sliceElemAddr(xv, iv)
			if !fr.spec {
				x.ptrTagElem(g, s.regs[ins], u.Elem())
			}
		case *types.Pointer:
			arr := u.Elem().Underlying().(*types.Array)
			fr.oblige("nil", "", ins.Pos(), g, c.Neq(xv, c.Null()), "index through non-nil array pointer")
			fr.oblige("bounds", "", ins.Pos(), g, c.BVCmp("bvult", iv, c.BV(uint64(arr.Len()), 64)), "array index in range")
			s.regs[ins] = c.RElem(xv, iv)
			if !fr.spec {
				x.ptrTagElem(g, s.regs[ins], arr.Elem())
			}
		default:
			panic("IndexAddr on " + ins.X.Type().String())
		}
	case *ssa.Lookup:
		s.regs[ins] = fr.lookup(s, g, ins)
	case *ssa.MakeInterface:
		s.regs[ins] = x.makeIface(val(ins.X), ins.X.Type(), g)
	case *ssa.MakeClosure:
		fn := ins.Fn.(*ssa.Function)
		var bs []*Term
		for _, b := range ins.Bindings {
			bs = append(bs, val(b))
		}
		t := c.Obj(s.alloc)
		s.alloc = c.IntBin("+", s.alloc, c.Int(1))
		x.closures[t] = &closureInfo{fn: fn, bindings: bs}
		s.regs[ins] = t
	case *ssa.MakeMap:
		m := c.Obj(s.alloc)
		s.alloc = c.IntBin("+", s.alloc, c.Int(1))
		mt := ins.Type().Underlying().(*types.Map)
		ks, vs := mapKeys(x, mt)
		s.mem["mapP|"+ks] = c.Store(x.mapPresent(s, ks), m, c.ConstArr(SArr(ks, SBool), c.False()))
		_ = vs
		s.regs[ins] = m
	case *ssa.MakeChan:
		t := c.Obj(s.alloc)
		s.alloc = c.IntBin("+", s.alloc, c.Int(1))
		s.regs[ins] = t
	case *ssa.MakeSlice:
		ln := fr.toIndex(val(ins.Len), ins.Len.Type())
		cp := fr.toIndex(val(ins.Cap), ins.Cap.Type())
		fr.oblige("bounds", "", ins.Pos(), g, c.And(c.BVCmp("bvsge", ln, c.BV(0, 64)), c.BVCmp("bvsle", ln, cp), c.BVCmp("bvule", cp, c.BV(1<<56, 64))), "make: 0 <= len <= cap")
		base := c.Obj(s.alloc)
		s.alloc = c.IntBin("+", s.alloc, c.Int(1))
		elem := ins.Type().Underlying().(*types.Slice).Elem()
		fr.zeroElems(s, base, elem, g)
		s.regs[ins] = c.MkSlice(base, c.BV(0, 64), ln, cp)
	case *ssa.MapUpdate:
		m := val(ins.Map)
		mt := ins.Map.Type().Underlying().(*types.Map)
		ks, vs := mapKeys(x, mt)
		x.mapTag(m, mt)
		fr.oblige("nil", "", ins.Pos(), g, c.Neq(m, c.Null()), "assignment to entry in non-nil map")
		k := val(ins.Key)
		v := val(ins.Value)
		P := x.mapPresent(s, ks)
		V := x.mapVals(s, ks, vs)
		s.mem["mapP|"+ks] = c.Store(P, m, c.Store(c.Select(P, m), k, c.True()))
		s.mem["mapV|"+ks+"|"+vs] = c.Store(V, m, c.Store(c.Select(V, m), k, v))
	case *ssa.Range:
		// iterator token: remember the collection
		s.regs[ins] = val(ins.X)
	case *ssa.Next:
		s.regs[ins] = fr.next(s, g, ins)
	case *ssa.Slice:
		s.regs[ins] = fr.sliceOp(s, g, ins)
	case *ssa.SliceToArrayPointer:
		sv := val(ins.X)
		arr := ins.Type().Underlying().(*types.Pointer).Elem().Underlying().(*types.Array)
		fr.oblige("bounds", "", ins.Pos(), g, c.BVCmp("bvuge", c.SlLen(sv), c.BV(uint64(arr.Len()), 64)), "slice to array pointer: len >= N")
		// only exact when offset is zero; otherwise abstract
		x.note("slice-to-array-pointer modelled as fresh view")
		s.regs[ins] = c.Fresh("s2ap", SRef)
	case *ssa.Store:
		addr := val(ins.Addr)
		fr.oblige("nil", "", ins.Pos(), g, c.Neq(addr, c.Null()), "store through non-nil pointer")
		x.store(s, addr, ins.Val.Type(), val(ins.Val))
	case *ssa.TypeAssert:
		s.regs[ins] = fr.typeAssert(s, g, ins)
	case *ssa.Defer:
		var args []*Term
		for _, a := range ins.Call.Args {
			args = append(args, val(a))
		}
		var fnv *Term
		if !ins.Call.IsInvoke() {
			if _, isFn := ins.Call.Value.(*ssa.Function); !isFn {
				if _, isB := ins.Call.Value.(*ssa.Builtin); !isB {
					fnv = val(ins.Call.Value)
				}
			}
		} else {
			fnv = val(ins.Call.Value)
		}
		s.defers = append(s.defers, deferred{call: &ins.Call, args: args, fnv: fnv, ins: ins})
	case *ssa.RunDefers:
		for i := len(s.defers) - 1; i >= 0; i-- {
			d := s.defers[i]
			fr.callWithArgs(s, g, d.call, d.ins, d.ins.Pos(), d.args, d.fnv)
		}
		s.defers = nil
	case *ssa.Go:
		x.note("goroutine start ignored (no thread model): " + x.P.posStr(ins.Pos()))
	case *ssa.Send:
		x.note("channel send abstracted: " + x.P.posStr(ins.Pos()))
	case *ssa.Select:
		x.note("select abstracted: " + x.P.posStr(ins.Pos()))
		s.regs[ins] = x.freshOf("select", ins.Type())
	case *ssa.Jump:
		fr.flow(n, 0, s, g)
		return false
	case *ssa.If:
		cond := val(ins.Cond)
		s2 := s.clone()
		fr.flow(n, 0, s, c.And(g, cond))
		fr.flow(n, 1, s2, c.And(g, c.Not(cond)))
		return false
	case *ssa.Return:
		var rs []*Term
		for _, r := range ins.Results {
			rs = append(rs, val(r))
		}
		*rets = append(*rets, &retInfo{st: s, guard: g, results: rs, pos: ins.Pos()})
		return false
	case *ssa.Panic:
		mp := false
		for f := fr; f != nil; f = f.parent {
			if f.contract != nil && f.contract.MayPanic {
				mp = true
			}
			if f.top {
				break
			}
		}
		if !mp {
			fr.oblige("panic", "", ins.Pos(), g, c.False(), "explicit panic is unreachable")
		}
		return false
	default:
		panic(fmt.Sprintf("unsupported instruction %T: %s", ins, ins))
	}
	return true
}

var gcSizes = types.SizesFor("gc", "amd64")

// unsafeCastCheck: (*T)(unsafe.Pointer(&s[i])) reads sizeof(T) bytes of s starting at i.
func (fr *Frame) unsafeCastCheck(s *State, g *Term, ins *ssa.Convert) {
	x := fr.x
	c := x.c
	pt, ok := ins.Type().Underlying().(*types.Pointer)
	if !ok {
		return
	}
	if b, ok := ins.X.Type().Underlying().(*types.Basic); !ok || b.Kind() != types.UnsafePointer {
		return
	}
	if c1, ok := ins.X.(*ssa.Convert); ok {
		if ia, ok := c1.X.(*ssa.IndexAddr); ok {
			if st, ok := ia.X.Type().Underlying().(*types.Slice); ok {
				esz := gcSizes.Sizeof(st.Elem())
				size := gcSizes.Sizeof(pt.Elem())
				idx := fr.toIndex(fr.value(s, ia.Index), ia.Index.Type())
				sl := fr.value(s, ia.X)
				need := uint64((size + esz - 1) / esz)
				fr.oblige("bounds", "", ins.Pos(), g, c.And(c.BVCmp("bvule", idx, c.SlLen(sl)), c.BVCmp("bvule", c.BV(need, 64), c.BVBin("bvsub", c.SlLen(sl), idx))),
					fmt.Sprintf("unsafe cast to *%s reads %d bytes inside the slice", pt.Elem(), size))
				x.note("unsafe idiom (*T)(unsafe.Pointer(&s[i])): bounds checked against len(s); the values read through the cast pointer are unconstrained (layout = amd64)")
				return
			}
		}
	}
	x.note("unsafe pointer cast to *" + pt.Elem().String() + " at " + x.P.posStr(ins.Pos()) + " is not bounds-checked")
}

// toIndex converts an integer of any type to a 64-bit index (sign- or zero-extended).
func (fr *Frame) toIndex(v *Term, t types.Type) *Term {
	c := fr.x.c
	w := bvWidth(v.sort)
	if w == 64 {
		return v
	}
	if isSignedType(t) {
		return c.SignExt(v, 64)
	}
	return c.ZeroExt(v, 64)
}

func (fr *Frame) fieldOf(sv *Term, t types.Type, st *types.Struct, i int) *Term {
	x := fr.x
	s := x.ti.structSort(types.Unalias(t), st)
	if spec, ok := x.ti.specialNamed(types.Unalias(t)); ok {
		_ = spec
		return x.freshOf("field", st.Field(i).Type())
	}
	return x.c.Sel(fmt.Sprintf("%s_f%d", s, i), x.ti.sortOf(st.Field(i).Type()), sv)
}

func (fr *Frame) zeroInit(s *State, addr *Term, t types.Type, g *Term) {
	x := fr.x
	if x.ti.isLeaf(t) {
		x.store(s, addr, t, x.ti.zero(t))
		return
	}
	switch u := types.Unalias(t).Underlying().(type) {
	case *types.Struct:
		for i := 0; i < u.NumFields(); i++ {
			fr.zeroInit(s, x.c.RSub(addr, i), u.Field(i).Type(), g)
		}
	case *types.Array:
		if u.Len() <= 16 {
			for i := int64(0); i < u.Len(); i++ {
				fr.zeroInit(s, x.c.RElem(addr, x.c.BV(uint64(i), 64)), u.Elem(), g)
			}
			return
		}
		fr.zeroElems(s, addr, u.Elem(), g)
	}
}

// zeroElems: all elements under base (a fresh object) are zero.
func (fr *Frame) zeroElems(s *State, base *Term, elem types.Type, g *Term) {
	x := fr.x
	c := x.c
	if !x.ti.isLeaf(elem) {
		// element structs: each leaf field of each element is zero
		switch u := types.Unalias(elem).Underlying().(type) {
		case *types.Struct:
			leafs := map[string]bool{}
			x.leafSorts(elem, leafs)
			for _, ls := range sortedKeys(leafs) {
				old := x.memOf(s, ls)
				nm := c.Fresh("mem_"+ls, old.sort)
				r := c.BVar("r", SRef)
				x.assume(g, c.Forall([]*Term{r}, c.Ite(c.Eq(c.RRoot(r), c.RRoot(base)), c.Eq(c.Select(nm, r), x.ti.zeroOfSort(ls)), c.Eq(c.Select(nm, r), c.Select(old, r))), c.Select(nm, r)))
				s.mem[ls] = nm
			}
			_ = u
			return
		}
		x.note("zero-initialisation of nested array elements abstracted")
		return
	}
	es := x.ti.sortOf(elem)
	old := x.memOf(s, es)
	nm := c.Fresh("mem_"+es, old.sort)
	r := c.BVar("r", SRef)
	x.assume(g, c.Forall([]*Term{r}, c.Ite(c.Eq(c.RRoot(r), c.RRoot(base)), c.Eq(c.Select(nm, r), x.ti.zeroOfSort(es)), c.Eq(c.Select(nm, r), c.Select(old, r))), c.Select(nm, r)))
	s.mem[es] = nm
}

func (fr *Frame) unop(ins *ssa.UnOp, s *State, g *Term) *Term {
	x := fr.x
	c := x.c
	v := fr.value(s, ins.X)
	switch ins.Op {
	case token.MUL: // load
		if gl, ok := ins.X.(*ssa.Global); ok {
			if t := x.constGlobal(gl); t != nil {
				return t
			}
		}
		fr.oblige("nil", "", ins.Pos(), g, c.Neq(v, c.Null()), "load through non-nil pointer")
		r := x.load(s, v, ins.Type())
		x.assumeWF(g, r, ins.Type(), s)
		return r
	case token.NOT:
		return c.Not(v)
	case token.SUB:
		if bvWidth(v.sort) > 0 {
			return c.BVNeg(v)
		}
		return x.freshOf("neg", ins.Type())
	case token.XOR:
		return c.BVNot(v)
	case token.ARROW:
		x.note("channel receive abstracted: " + x.P.posStr(ins.Pos()))
		return x.freshOf("recv", ins.Type())
	}
	panic("unop " + ins.Op.String())
}

// constGlobal: package-level error variables initialised once are modelled as
// distinct non-nil constants.
func (x *Exec) constGlobal(g *ssa.Global) *Term {
	elem := g.Type().Underlying().(*types.Pointer).Elem()
	if _, ok := types.Unalias(elem).Underlying().(*types.Interface); !ok {
		return nil
	}
	if elem.String() != "error" {
		return nil
	}
	isConst, ok := x.constGlobalCache[g]
	if !ok {
		isConst = true
		if g.Pkg != nil {
			for _, m := range g.Pkg.Members {
				fn, ok := m.(*ssa.Function)
				if !ok || fn.Name() == "init" {
					continue
				}
				if storesTo(fn, g) {
					isConst = false
				}
			}
		}
		x.constGlobalCache[g] = isConst
	}
	if !isConst {
		return nil
	}
	name := "errvar_" + sanitize(g.Pkg.Pkg.Name()+"_"+g.Name())
	c := x.c
	t := c.Var(name, SIface)
	if _, ok := c.symAxioms[name]; !ok {
		c.symAxioms[name] = []*Term{c.Neq(t, c.nilIface())}
		c.distinct["errvar"] = append(c.distinct["errvar"], name)
		x.note("package-level error variables are non-nil, pairwise distinct and never reassigned after init")
	}
	return t
}

func storesTo(fn *ssa.Function, g *ssa.Global) bool {
	for _, b := range fn.Blocks {
		for _, ins := range b.Instrs {
			if st, ok := ins.(*ssa.Store); ok && st.Addr == g {
				return true
			}
		}
	}
	for _, af := range fn.AnonFuncs {
		if storesTo(af, g) {
			return true
		}
	}
	return false
}

func (fr *Frame) binop(op token.Token, a, b *Term, ta, tb types.Type, pos token.Pos, g *Term) *Term {
	x := fr.x
	c := x.c
	signed := isSignedType(ta)
	switch op {
	case token.EQL:
		return c.Eq(a, b)
	case token.NEQ:
		return c.Neq(a, b)
	}
	if a.sort == SStr {
		switch op {
		case token.ADD:
			r := c.UF("str_concat", SStr, a, b)
			x.assumeRaw(c.Eq(c.StrLen(r), c.BVBin("bvadd", c.StrLen(a), c.StrLen(b))))
			return r
		case token.LSS:
			return c.UF("str_lt", SBool, a, b)
		case token.GTR:
			return c.UF("str_lt", SBool, b, a)
		case token.LEQ:
			return c.Not(c.UF("str_lt", SBool, b, a))
		case token.GEQ:
			return c.Not(c.UF("str_lt", SBool, a, b))
		}
	}
	if a.sort == SBool {
		switch op {
		case token.AND, token.LAND:
			return c.And(a, b)
		case token.OR, token.LOR:
			return c.Or(a, b)
		}
	}
	w := bvWidth(a.sort)
	if w == 0 {
		// floats etc.
		if op == token.LSS || op == token.GTR || op == token.LEQ || op == token.GEQ {
			return c.Fresh("fcmp", SBool)
		}
		return c.Fresh("fop", a.sort)
	}
	cmp := func(u, s string) *Term {
		if signed {
			return c.BVCmp(s, a, b)
		}
		return c.BVCmp(u, a, b)
	}
	switch op {
	case token.ADD:
		return c.BVBin("bvadd", a, b)
	case token.SUB:
		return c.BVBin("bvsub", a, b)
	case token.MUL:
		return c.BVBin("bvmul", a, b)
	case token.QUO:
		fr.oblige("div", "", pos, g, c.Neq(b, c.BV(0, w)), "division by non-zero")
		if !b.isBVLit() && fr.abstractDiv() {
			return fr.absDiv(a, b, signed)
		}
		if signed {
			return c.BVBin("bvsdiv", a, b)
		}
		return c.BVBin("bvudiv", a, b)
	case token.REM:
		fr.oblige("div", "", pos, g, c.Neq(b, c.BV(0, w)), "remainder by non-zero")
		if signed {
			return c.BVBin("bvsrem", a, b)
		}
		return c.BVBin("bvurem", a, b)
	case token.AND:
		return c.BVBin("bvand", a, b)
	case token.OR:
		return c.BVBin("bvor", a, b)
	case token.XOR:
		return c.BVBin("bvxor", a, b)
	case token.AND_NOT:
		return c.BVBin("bvand", a, c.BVNot(b))
	case token.SHL, token.SHR:
		// shift count: any integer type
		wb := bvWidth(b.sort)
		if isSignedType(tb) {
			fr.oblige("shift", "", pos, g, c.BVCmp("bvsge", b, c.BV(0, wb)), "shift count non-negative")
		}
		var cnt *Term
		if wb > w {
			big := c.BVCmp("bvuge", b, c.BV(uint64(w), wb))
			cnt = c.Ite(big, c.BV(uint64(w), w), c.Extract(w-1, 0, b))
		} else {
			cnt = c.ZeroExt(b, w)
		}
		if op == token.SHL {
			return c.BVBin("bvshl", a, cnt)
		}
		if signed {
			return c.BVBin("bvashr", a, cnt)
		}
		return c.BVBin("bvlshr", a, cnt)
	case token.LSS:
		return cmp("bvult", "bvslt")
	case token.LEQ:
		return cmp("bvule", "bvsle")
	case token.GTR:
		return cmp("bvugt", "bvsgt")
	case token.GEQ:
		return cmp("bvuge", "bvsge")
	}
	panic("binop " + op.String())
}

// abstractDiv: the function being verified asked (`abstractdiv`) for divisions
// by a variable to be abstracted.
func (fr *Frame) abstractDiv() bool {
	top := fr
	for top.parent != nil && !top.top {
		top = top.parent
	}
	return top.contract != nil && top.contract.AbstractDiv
}

// absDiv: a/b for a non-constant b as an uninterpreted function together with
// the facts that characterise truncated division of a non-negative dividend
// by a positive divisor (q*b <= a < q*b+b, 0 <= q <= a) and its monotonicity
// in the dividend. All facts are true of Go's `/`, so this only forgets
// information (an over-approximation); it spares the solvers a 64-bit divider.
func (fr *Frame) absDiv(a, b *Term, signed bool) *Term {
	x := fr.x
	c := x.c
	w := bvWidth(a.sort)
	name := "absdiv_u"
	le, lt := "bvule", "bvult"
	pos := c.True()
	if signed {
		name = "absdiv_s"
		le, lt = "bvsle", "bvslt"
		pos = c.And(c.BVCmp("bvsge", a, c.BV(0, w)), c.BVCmp("bvsgt", b, c.BV(0, w)))
	} else {
		pos = c.BVCmp("bvugt", b, c.BV(0, w))
	}
	q := c.UF(fmt.Sprintf("%s%d", name, w), a.sort, a, b)
	if x.absDivs == nil {
		x.absDivs = map[*Term]bool{}
	}
	if x.absDivs[q] {
		return q
	}
	x.absDivs[q] = true
	qb := c.BVBin("bvmul", q, b)
	x.assumeRaw(c.Implies(pos, c.And(c.BVCmp(le, c.BV(0, w), q), c.BVCmp(le, q, a), c.BVCmp(le, qb, a), c.BVCmp(lt, c.BVBin("bvsub", a, qb), b),
		c.BVCmp(le, c.BV(0, w), qb))))
	for o := range x.absDivs {
		if o == q || o.name != q.name || o.args[1] != b {
			continue
		}
		oa := o.args[0]
		opos := pos
		if signed {
			opos = c.And(pos, c.BVCmp("bvsge", oa, c.BV(0, w)))
		}
		x.assumeRaw(c.Implies(c.And(opos, c.BVCmp(le, oa, a)), c.BVCmp(le, o, q)))
		x.assumeRaw(c.Implies(c.And(opos, c.BVCmp(le, a, oa)), c.BVCmp(le, q, o)))
	}
	x.note("divisions by a variable are abstracted to an uninterpreted function with the defining inequalities and monotonicity of truncated division (contract clause abstractdiv)")
	return q
}

func (fr *Frame) convert(v *Term, from, to types.Type, s *State, g *Term) *Term {
	x := fr.x
	c := x.c
	fs, ts := x.ti.sortOf(from), x.ti.sortOf(to)
	fw, tw := bvWidth(fs), bvWidth(ts)
	switch {
	case fw > 0 && tw > 0 && isIntType(from) && isIntType(to):
		if tw == fw {
			return v
		}
		if tw < fw {
			return c.Extract(tw-1, 0, v)
		}
		if isSignedType(from) {
			return c.SignExt(v, tw)
		}
		return c.ZeroExt(v, tw)
	case fs == ts && fs != SSlice && fs != SStr:
		return v
	case fs == SSlice && ts == SStr: // string(bytes)
		r := c.Fresh("str_of_bytes", SStr)
		x.assume(g, c.Eq(c.StrLen(r), c.SlLen(v)))
		i := c.BVar("i", SBV(64))
		x.assume(g, c.Forall([]*Term{i}, c.Implies(c.BVCmp("bvult", i, c.SlLen(v)),
			c.Eq(c.StrAt(r, i), c.Select(x.memOf(s, SBV(8)), x.sliceElemAddr(v, i)))), c.StrAt(r, i)))
		return r
	case fs == SStr && ts == SSlice: // []byte(string)
		base := c.Obj(s.alloc)
		s.alloc = c.IntBin("+", s.alloc, c.Int(1))
		old := x.memOf(s, SBV(8))
		nm := c.Fresh("mem_bytes", old.sort)
		r := c.BVar("r", SRef)
		idx := c.Sel("pelem_idx", SBV(64), c.RPath(r))
		x.assume(g, c.Forall([]*Term{r}, c.Ite(x.isElemOf(r, base), c.Implies(c.BVCmp("bvult", idx, c.StrLen(v)), c.Eq(c.Select(nm, r), c.StrAt(v, idx))), c.Eq(c.Select(nm, r), c.Select(old, r))), c.Select(nm, r)))
		s.mem[SBV(8)] = nm
		return c.MkSlice(base, c.BV(0, 64), c.StrLen(v), c.StrLen(v))
	case fs == SSlice && ts == SSlice:
		return v
	case fs == SStr && ts == SStr:
		return v
	case fs == SRef && tw == 64: // uintptr(unsafe.Pointer)
		return c.UF("ptr_to_uintptr", SBV(64), v)
	case fw == 64 && ts == SRef:
		return c.UF("uintptr_to_ptr", SRef, v)
	}
	x.note(fmt.Sprintf("conversion %s -> %s abstracted", from, to))
	return x.freshOf("conv", to)
}

func (x *Exec) makeIface(v *Term, t types.Type, g *Term) *Term {
	c := x.c
	if v.sort == SIface {
		return v
	}
	tn := sanitize(types.TypeString(t, func(p *types.Package) string { return p.Name() }))
	mk := "iface_mk_" + tn
	get := "iface_get_" + tn
	r := c.UF(mk, SIface, v)
	tag := x.typeTag(t)
	x.assumeRaw(c.And(c.Neq(r, c.nilIface()), c.Eq(c.UF(get, v.sort, r), v), c.Eq(c.IfaceTag(r), c.Int(tag))))
	return r
}

var typeTags = map[string]int64{}

func (x *Exec) typeTag(t types.Type) int64 {
	k := types.TypeString(t, nil)
	if n, ok := typeTags[k]; ok {
		return n
	}
	n := int64(len(typeTags) + 1)
	typeTags[k] = n
	return n
}

func (fr *Frame) typeAssert(s *State, g *Term, ins *ssa.TypeAssert) *Term {
	x := fr.x
	c := x.c
	v := fr.value(s, ins.X)
	if _, isIface := types.Unalias(ins.AssertedType).Underlying().(*types.Interface); isIface {
		ok := c.And(c.Neq(v, c.nilIface()), c.Fresh("implements", SBool))
		if ins.CommaOk {
			return c.mk("tuple", "Tuple", 0, "", []*Term{c.Ite(ok, v, c.nilIface()), ok}, nil, nil)
		}
		fr.oblige("typeassert", "", ins.Pos(), g, ok, "interface type assertion succeeds")
		return v
	}
	tn := sanitize(types.TypeString(ins.AssertedType, func(p *types.Package) string { return p.Name() }))
	srt := x.ti.sortOf(ins.AssertedType)
	ok := c.Eq(c.IfaceTag(v), c.Int(x.typeTag(ins.AssertedType)))
	got := c.UF("iface_get_"+tn, srt, v)
	// the value held by an interface is a well-formed value of its dynamic type
	x.assumeWF(c.And(g, ok), got, ins.AssertedType, s)
	if ins.CommaOk {
		return c.mk("tuple", "Tuple", 0, "", []*Term{c.Ite(ok, got, x.ti.zero(ins.AssertedType)), ok}, nil, nil)
	}
	fr.oblige("typeassert", "", ins.Pos(), g, ok, "type assertion succeeds")
	return got
}

func (fr *Frame) lookup(s *State, g *Term, ins *ssa.Lookup) *Term {
	x := fr.x
	c := x.c
	xv := fr.value(s, ins.X)
	if mt, ok := types.Unalias(ins.X.Type()).Underlying().(*types.Map); ok {
		ks, vs := mapKeys(x, mt)
		x.mapTag(xv, mt)
		k := fr.value(s, ins.Index)
		pres := c.And(c.Neq(xv, c.Null()), c.Select(c.Select(x.mapPresent(s, ks), xv), k))
		v := c.Ite(pres, c.Select(c.Select(x.mapVals(s, ks, vs), xv), k), x.ti.zero(mt.Elem()))
		x.assumeWF(c.And(g, pres), v, mt.Elem(), s)
		if ins.CommaOk {
			return c.mk("tuple", "Tuple", 0, "", []*Term{v, pres}, nil, nil)
		}
		return v
	}
	// string index
	iv := fr.toIndex(fr.value(s, ins.Index), ins.Index.Type())
	fr.oblige("bounds", "", ins.Pos(), g, c.BVCmp("bvult", iv, c.StrLen(xv)), "string index in range")
	return c.StrAt(xv, iv)
}

// next: one step of a map/string range: arbitrary remaining key.
func (fr *Frame) next(s *State, g *Term, ins *ssa.Next) *Term {
	x := fr.x
	c := x.c
	rng := ins.Iter.(*ssa.Range)
	coll := fr.value(s, ins.Iter)
	ok := c.Fresh("range_ok", SBool)
	tup := ins.Type().(*types.Tuple)
	if mt, isMap := types.Unalias(rng.X.Type()).Underlying().(*types.Map); isMap {
		ks, vs := mapKeys(x, mt)
		x.mapTag(coll, mt)
		k := c.Fresh("range_k", ks)
		pres := c.Select(c.Select(x.mapPresent(s, ks), coll), k)
		x.assume(g, c.Implies(ok, c.And(c.Neq(coll, c.Null()), pres)))
		v := c.Select(c.Select(x.mapVals(s, ks, vs), coll), k)
		x.assumeWF(c.And(g, ok), v, mt.Elem(), s)
		x.note("map iteration: each step yields an arbitrary present key (order and exhaustiveness not modelled)")
		if key := mapRangeKey(ins.Block()); key != "" {
			if n, has := s.ghost[key]; has {
				// one more entry visited: there was one left, so fewer than 2^56 had been visited
				x.assume(g, c.Implies(ok, c.BVCmp("bvslt", n, c.BV(1<<56, 64))))
				s.ghost[key] = c.BVBin("bvadd", n, c.BV(1, 64))
			}
		}
		var kk, vv *Term = k, v
		if tup.At(1).Type() == tInvalid || isInvalid(tup.At(1).Type()) {
			kk = nil
		}
		if isInvalid(tup.At(2).Type()) {
			vv = nil
		}
		return c.mk("tuple", "Tuple", 0, "", []*Term{ok, orDummy(c, kk), orDummy(c, vv)}, nil, nil)
	}
	// string range
	x.note("string range abstracted")
	k := c.Fresh("range_i", SBV(64))
	r := c.Fresh("range_r", SBV(32))
	return c.mk("tuple", "Tuple", 0, "", []*Term{ok, k, r}, nil, nil)
}

var tInvalid = types.Typ[types.Invalid]

func isInvalid(t types.Type) bool {
	b, ok := t.(*types.Basic)
	return ok && b.Kind() == types.Invalid
}

func orDummy(c *Ctx, t *Term) *Term {
	if t == nil {
		return c.False()
	}
	return t
}

func (fr *Frame) sliceOp(s *State, g *Term, ins *ssa.Slice) *Term {
	x := fr.x
	c := x.c
	xv := fr.value(s, ins.X)
	idx := func(v ssa.Value) *Term {
		if v == nil {
			return nil
		}
		return fr.toIndex(fr.value(s, v), v.Type())
	}
	lo, hi, mx := idx(ins.Low), idx(ins.High), idx(ins.Max)
	zero := c.BV(0, 64)
	switch u := types.Unalias(ins.X.Type()).Underlying().(type) {
	case *types.Slice:
		if lo == nil {
			lo = zero
		}
		if hi == nil {
			hi = c.SlLen(xv)
		}
		capv := c.SlCap(xv)
		if mx == nil {
			fr.oblige("bounds", "", ins.Pos(), g, c.And(c.BVCmp("bvule", lo, hi), c.BVCmp("bvule", hi, capv)), "slice bounds 0 <= lo <= hi <= cap")
			mx = capv
		} else {
			fr.oblige("bounds", "", ins.Pos(), g, c.And(c.BVCmp("bvule", lo, hi), c.BVCmp("bvule", hi, mx), c.BVCmp("bvule", mx, capv)), "slice bounds 0 <= lo <= hi <= max <= cap")
		}
		return c.MkSlice(c.SlPtr(xv), c.BVBin("bvadd", c.SlOff(xv), lo), c.BVBin("bvsub", hi, lo), c.BVBin("bvsub", mx, lo))
	case *types.Pointer:
		arr := u.Elem().Underlying().(*types.Array)
		n := c.BV(uint64(arr.Len()), 64)
		if lo == nil {
			lo = zero
		}
		if hi == nil {
			hi = n
		}
		if mx == nil {
			mx = n
		}
		fr.oblige("nil", "", ins.Pos(), g, c.Neq(xv, c.Null()), "slice of non-nil array pointer")
		fr.oblige("bounds", "", ins.Pos(), g, c.And(c.BVCmp("bvule", lo, hi), c.BVCmp("bvule", hi, mx), c.BVCmp("bvule", mx, n)), "array slice bounds")
		return c.MkSlice(xv, lo, c.BVBin("bvsub", hi, lo), c.BVBin("bvsub", mx, lo))
	case *types.Basic: // string
		if lo == nil {
			lo = zero
		}
		if hi == nil {
			hi = c.StrLen(xv)
		}
		fr.oblige("bounds", "", ins.Pos(), g, c.And(c.BVCmp("bvule", lo, hi), c.BVCmp("bvule", hi, c.StrLen(xv))), "string slice bounds")
		return x.substr(xv, lo, hi)
	}
	panic("slice of " + ins.X.Type().String())
}

func (x *Exec) substr(sv, lo, hi *Term) *Term {
	c := x.c
	if lo.isBVLit() && lo.val == 0 && hi == c.StrLen(sv) {
		return sv
	}
	r := c.UF("str_sub", SStr, sv, lo, hi)
	x.assumeRaw(c.Eq(c.StrLen(r), c.BVBin("bvsub", hi, lo)))
	i := c.BVar("i", SBV(64))
	x.assumeRaw(c.Forall([]*Term{i}, c.Eq(c.StrAt(r, i), c.StrAt(sv, c.BVBin("bvadd", lo, i))), c.StrAt(r, i)))
	return r
}

package main

// exec_call.go: calls — builtins, models of library functions, modular
// application of contracts, inlining of pure/inline functions, callbacks.

import (
	"fmt"
	"go/token"
	"go/types"
	"strings"

	"golang.org/x/tools/go/ssa"
)

func (x *Exec) newFrame(fn *ssa.Function, parent *Frame) *Frame {
	key := funcKey(fn)
	fr := &Frame{x: x, fn: fn, key: key, parent: parent, olds: map[string]*Term{}, oldTypes: map[string]types.Type{}, ghostTypes: map[string]types.Type{}, compiled: map[*Clause]*Compiled{}}
	fr.contract = x.P.Contracts[key]
	fr.decl = x.P.FuncDecl[key]
	if fn.Object() != nil && fn.Object().Pkg() != nil {
		fr.pkg = x.P.PkgByPath[fn.Object().Pkg().Path()]
	} else if fn.Pkg != nil {
		fr.pkg = x.P.PkgByPath[fn.Pkg.Pkg.Path()]
	}
	if fr.contract != nil {
		if p := x.P.PkgByPath[fr.contract.PkgPath]; p != nil {
			fr.pkg = p
		}
	}
	if fn.Blocks != nil {
		fr.li = analyzeLoops(fn, fr.decl)
	}
	return fr
}

func resultType(sig *types.Signature) types.Type {
	switch sig.Results().Len() {
	case 0:
		return nil
	case 1:
		return sig.Results().At(0).Type()
	}
	return sig.Results()
}

func (fr *Frame) call(s *State, g *Term, call *ssa.CallCommon, ins ssa.Instruction, pos token.Pos) *Term {
	var args []*Term
	for _, a := range call.Args {
		args = append(args, fr.value(s, a))
	}
	var fnv *Term
	if call.IsInvoke() {
		fnv = fr.value(s, call.Value)
	} else {
		switch call.Value.(type) {
		case *ssa.Function, *ssa.Builtin:
		default:
			fnv = fr.value(s, call.Value)
		}
	}
	return fr.callWithArgs(s, g, call, ins, pos, args, fnv)
}

func (fr *Frame) freshResult(s *State, g *Term, prefix string, sig *types.Signature) *Term {
	rt := resultType(sig)
	if rt == nil {
		return nil
	}
	r := fr.x.freshOf(prefix, rt)
	return r
}

// applyAtCalls: the `atcall` clauses of the function being verified that name this callee (interference at lock
// acquisition): havoc, count, then assume, in that order.
func (fr *Frame) applyAtCalls(s *State, g *Term, key string) {
	top := fr
	for top.parent != nil && !top.top {
		top = top.parent
	}
	if top.contract == nil || len(top.contract.AtCalls) == 0 {
		return
	}
	x := fr.x
	c := x.c
	for _, phase := range []string{"atcall-havoc", "atcall-count", "atcall-assume"} {
		for _, ac := range top.contract.AtCalls {
			if ac.Kind != phase || !strings.HasSuffix(key, ac.CbName) {
				continue
			}
			switch phase {
			case "atcall-havoc":
				pre := s.clone()
				ts := top.evalTargets(ac, pre, nil, nil)
				fr.havocTargets(s, pre, ts, g)
				x.bindHavocBound(s.alloc)
				x.note("interference: state protected by a lock is arbitrary (within the stated invariant) each time the lock is acquired in " + shortKey(top.key))
			case "atcall-count":
				name := strings.TrimSpace(ac.Text)
				if v, ok := s.ghost[name]; ok && bvWidth(v.sort) > 0 {
					s.ghost[name] = c.BVBin("bvadd", v, c.BV(1, bvWidth(v.sort)))
				}
			case "atcall-assume":
				x.assume(g, top.evalClauseAt(ac, s, nil, nil))
			}
		}
	}
}

func (fr *Frame) havocAll(s *State, g *Term, why string) {
	// a `closed` contract accounts for every call the function makes (its effect counters are only meaningful then):
	// code of unknown effect is an obligation that cannot be discharged
	top := fr
	for top.parent != nil && !top.top {
		top = top.parent
	}
	if top.contract != nil && top.contract.Closed && !fr.spec {
		fr.oblige("closed", "", token.NoPos, g, fr.x.c.False(), why+": every call made by a function with a `closed` contract needs a contract, a model or to be effect free")
	}
	pre := s.clone()
	fr.havocTargets(s, pre, []target{{kind: "all"}}, g)
	na := fr.x.c.Fresh("alloc", SInt)
	fr.x.assume(g, fr.x.c.IntCmp(">=", na, pre.alloc))
	s.alloc = na
	fr.x.bindHavocBound(na)
	fr.x.note("unknown effects: " + why)
}

func (fr *Frame) callWithArgs(s *State, g *Term, call *ssa.CallCommon, ins ssa.Instruction, pos token.Pos, args []*Term, fnv *Term) *Term {
	x := fr.x
	c := x.c
	sig := call.Signature()
	if b, ok := call.Value.(*ssa.Builtin); ok {
		return fr.builtin(s, g, b, call, args, pos)
	}
	if ins != nil && !fr.spec {
		savedSite := fr.site
		fr.site = ins
		defer func() { fr.site = savedSite }()
	}
	if call.IsInvoke() {
		key := invokeKey(call)
		fr.oblige("nil", "", pos, g, c.Neq(fnv, c.nilIface()), "method call on non-nil interface")
		if m := lookupModel(key); m != nil {
			return m.apply(fr, s, g, call, append([]*Term{fnv}, args...), pos)
		}
		if fr.spec {
			// in a specification: an uninterpreted function of receiver and arguments
			if rt := resultType(sig); rt != nil {
				if _, isTup := rt.(*types.Tuple); !isTup {
					x.note("uninterpreted function in contracts: " + shortKey(key))
					return c.UF("uf_"+sanitize(shortKey(key)), x.ti.sortOf(rt), append([]*Term{fnv}, args...)...)
				}
			}
		}
		if fc := x.P.Contracts[key]; fc != nil {
			names := []string{"self"}
			for i := 0; i < sig.Params().Len(); i++ {
				names = append(names, sig.Params().At(i).Name())
			}
			x.pendingSelfType = call.Value.Type()
			return fr.applyContract(s, g, fc, nil, sig, names, append([]*Term{fnv}, args...), pos)
		}
		r := fr.freshResult(s, g, "inv_"+call.Method.Name(), sig)
		if isEffectFree(key) {
			if r != nil {
				x.assumeWF(g, r, resultType(sig), s)
			}
			return r
		}
		fr.havocAll(s, g, "interface call "+key+" at "+x.P.posStr(pos))
		if r != nil {
			x.assumeWF(g, r, resultType(sig), s)
		}
		return r
	}
	if callee := call.StaticCallee(); callee != nil {
		key := funcKey(callee)
		if r, ok := fr.vocabularyCall(s, callee, args); ok {
			return r
		}
		if !fr.spec {
			fr.applyAtCalls(s, g, key)
		}
		if m := lookupModel(key); m != nil {
			return m.apply(fr, s, g, call, args, pos)
		}
		fc := x.P.Contracts[key]
		if ta := callee.TypeArgs(); len(ta) > 0 {
			// a contract written for one instantiation of a generic function: `func pkg.(*T).M[typeargs]`
			var ss []string
			for _, t := range ta {
				ss = append(ss, types.TypeString(t, nil))
			}
			if ifc := x.P.Contracts[key+"["+strings.Join(ss, ",")+"]"]; ifc != nil {
				fc = ifc
			}
		}
		if fc != nil && (fc.Pure || fc.Inline) {
			if callee.Blocks == nil {
				panic("pure/inline function without body: " + key)
			}
			if fc.Recursive > 0 {
				return fr.applyRecursive(s, callee, fc, args)
			}
			if r, ok := fr.opaqueApp(fc, callee, args); ok {
				return r
			}
			return fr.inlineCall(s, g, callee, args, nil, fc.Pure || fr.spec)
		}
		if fr.spec {
			if callee.Blocks != nil {
				return fr.inlineCall(s, g, callee, args, nil, true)
			}
			// body-less function in a specification: an uninterpreted function of its arguments
			// (the same symbol the contract-expression evaluator uses)
			if rt := resultType(sig); rt != nil {
				if _, isTup := rt.(*types.Tuple); !isTup {
					open := false
					for _, a := range args {
						if a.op == "tuple" {
							open = true
						}
					}
					if !open {
						x.note("uninterpreted function in contracts: " + shortKey(key))
						return c.UF("uf_"+sanitize(shortKey(key)), x.ti.sortOf(rt), args...)
					}
				}
			}
			r := fr.freshResult(s, g, "call_"+callee.Name(), sig)
			return r
		}
		if fc != nil {
			var names []string
			for _, p := range callee.Params {
				names = append(names, p.Name())
			}
			if callee.Blocks == nil {
				names = nil
				if r := sig.Recv(); r != nil {
					n := r.Name()
					if n == "" || n == "_" {
						n = "recv"
					}
					names = append(names, n)
				}
				for i := 0; i < sig.Params().Len(); i++ {
					n := sig.Params().At(i).Name()
					if n == "" || n == "_" {
						n = fmt.Sprintf("arg%d", i)
					}
					names = append(names, n)
				}
			}
			return fr.applyContract(s, g, fc, callee, sig, names, args, pos)
		}
		if isEffectFree(key) {
			r := fr.freshResult(s, g, "call_"+callee.Name(), sig)
			if r != nil {
				x.assumeWF(g, r, resultType(sig), s)
			}
			return r
		}
		if callee.Parent() != nil && callee.Blocks != nil {
			var bs []*Term
			if ci := x.closures[fnv]; ci != nil && ci.fn == callee {
				bs = ci.bindings
			}
			if len(bs) == len(callee.FreeVars) {
				return fr.inlineCall(s, g, callee, args, bs, fr.spec)
			}
		}
		if x.isLeafHelper(callee, 0) {
			// a small loop-free helper of the repository that writes nothing and calls only modelled functions or
			// other such helpers: its body is used in place (so extracting a helper is not a reason for an alarm)
			x.note("inlined without contract (loop-free, store-free helper): " + shortKey(key))
			return fr.inlineCall(s, g, callee, args, nil, fr.spec)
		}
		fr.havocAll(s, g, "call to "+shortKey(key)+" (no contract) at "+x.P.posStr(pos))
		r := fr.freshResult(s, g, "call_"+callee.Name(), sig)
		if r != nil {
			x.assumeWF(g, r, resultType(sig), s)
		}
		return r
	}
	// dynamic call through a function value
	if p, ok := call.Value.(*ssa.Parameter); ok {
		for f := fr; f != nil; f = f.parent {
			if f.fn == p.Parent() && f.contract != nil {
				if cb := f.contract.Callbacks[p.Name()]; cb != nil {
					return fr.applyCallback(f, s, g, cb, sig, args, pos)
				}
			}
		}
	}
	// a function value loaded from a struct field (m.verifier(...)): a callback contract named after the field
	if ld, ok := call.Value.(*ssa.UnOp); ok && ld.Op == token.MUL {
		if fa, ok := ld.X.(*ssa.FieldAddr); ok {
			if st, ok := types.Unalias(fa.X.Type().Underlying().(*types.Pointer).Elem()).Underlying().(*types.Struct); ok {
				name := st.Field(fa.Field).Name()
				for f := fr; f != nil; f = f.parent {
					if f.contract != nil {
						if cb := f.contract.Callbacks[name]; cb != nil {
							return fr.applyCallback(f, s, g, cb, sig, args, pos)
						}
					}
					if f.top {
						break
					}
				}
			}
		}
	}
	if ci := x.closures[fnv]; ci != nil && ci.fn.Blocks != nil {
		return fr.inlineCall(s, g, ci.fn, args, ci.bindings, fr.spec)
	}
	// `for k, v := range iteratorFunc`: a call of the iterator with the compiler-generated loop body as yield function
	if it := x.iterators[fnv]; it != nil && len(args) == 1 && !fr.spec {
		if yc := x.closures[args[0]]; yc != nil && yc.fn.Synthetic == "range-over-func yield" && yc.fn.Blocks != nil {
			fr.rangeFuncCall(s, g, it, yc, ins, pos)
			return nil
		}
	}
	fr.havocAll(s, g, "call through function value at "+x.P.posStr(pos))
	r := fr.freshResult(s, g, "dyncall", sig)
	if r != nil {
		x.assumeWF(g, r, resultType(sig), s)
	}
	return r
}

// isLeafHelper: a function of the repository with a body, no loops, at most 80 instructions, no writes except to
// its own non-escaping locals, no goroutines/defers/closures, and calls only to builtins, modelled functions or
// (two levels deep) other leaf helpers without contracts.
func (x *Exec) isLeafHelper(fn *ssa.Function, depth int) bool {
	if fn == nil || fn.Blocks == nil || fn.Pkg == nil || depth > 2 {
		return false
	}
	if _, ok := x.P.PkgByPath[fn.Pkg.Pkg.Path()]; !ok {
		return false
	}
	if fn.TypeParams().Len() > 0 || len(fn.TypeArgs()) > 0 {
		return false
	}
	n := 0
	for _, b := range fn.Blocks {
		for _, sc := range b.Succs {
			if sc.Dominates(b) {
				return false
			}
		}
		for _, ins := range b.Instrs {
			n++
			switch v := ins.(type) {
			case *ssa.Store:
				a, ok := v.Addr.(*ssa.Alloc)
				if !ok || a.Heap {
					return false
				}
			case *ssa.MapUpdate, *ssa.Go, *ssa.Defer, *ssa.Send, *ssa.Select, *ssa.MakeClosure, *ssa.Panic, *ssa.RunDefers, *ssa.MakeChan:
				return false
			case *ssa.Alloc:
				if v.Heap {
					return false
				}
			case *ssa.Call:
				if _, ok := v.Call.Value.(*ssa.Builtin); ok {
					continue
				}
				cal := v.Call.StaticCallee()
				if cal == nil {
					return false
				}
				k := funcKey(cal)
				if lookupModel(k) != nil {
					continue
				}
				if x.P.Contracts[k] != nil || !x.isLeafHelper(cal, depth+1) {
					return false
				}
			}
		}
	}
	return n <= 80
}

func (fr *Frame) inlineCall(s *State, g *Term, callee *ssa.Function, args []*Term, bindings []*Term, spec bool) *Term {
	x := fr.x
	cf := x.newFrame(callee, fr)
	cf.params = args
	cf.bindings = bindings
	cf.spec = spec
	if spec {
		// memory as it was when specification evaluation started (before spec-local temporaries)
		if fr.spec && fr.specBase != nil {
			cf.specBase = fr.specBase
		} else {
			cf.specBase = s.clone()
		}
	}
	saved := s.regs
	savedDefers := s.defers
	s.regs = map[any]*Term{}
	s.defers = nil
	for i, p := range callee.Params {
		s.regs[p] = args[i]
	}
	cf.entry = s.clone()
	cf.guard0 = g
	if cf.contract != nil && !spec {
		cf.evalOlds(s)
	}
	results, out, _ := cf.run(s, g)
	// copy back
	s.mem, s.ep, s.alloc, s.ghost = out.mem, out.ep, out.alloc, out.ghost
	s.regs = saved
	s.defers = savedDefers
	switch len(results) {
	case 0:
		if resultType(callee.Signature) != nil {
			return x.freshOf("noreturn", resultType(callee.Signature))
		}
		return nil
	case 1:
		return results[0]
	}
	return x.c.mk("tuple", "Tuple", 0, "", results, nil, nil)
}

func (fr *Frame) evalOlds(s *State) {
	if fr.contract == nil {
		return
	}
	for _, o := range fr.contract.Olds {
		v := fr.evalClauseAt(o, s, nil, nil)
		fr.olds[o.Ghost] = v
		if !v.open {
			fr.x.assumeWF(fr.x.c.True(), v, fr.oldTypes[o.Ghost], s)
		}
	}
}

// applyContract: modular call.
func (fr *Frame) applyContract(s *State, g *Term, fc *FuncContract, callee *ssa.Function, sig *types.Signature, names []string, args []*Term, pos token.Pos) *Term {
	x := fr.x
	c := x.c
	var cf *Frame
	if callee != nil {
		cf = x.newFrame(callee, fr)
		if cf.contract != fc {
			// a contract for one instantiation of a generic function
			cf.contract = fc
			if p := x.P.PkgByPath[fc.PkgPath]; p != nil {
				cf.pkg = p
			}
		}
	} else {
		cf = &Frame{x: x, key: fc.Key, contract: fc, parent: fr, olds: map[string]*Term{}, oldTypes: map[string]types.Type{}, ghostTypes: map[string]types.Type{}, compiled: map[*Clause]*Compiled{}, pkg: x.P.PkgByPath[fc.PkgPath]}
	}
	cf.params = args
	cf.paramNames = names
	cf.sig = sig
	if callee == nil {
		cf.selfType = x.pendingSelfType
	}
	x.pendingSelfType = nil
	cf.declareGhosts()
	// instances of the callee's rigid ghosts chosen by the caller's contract
	for _, gcl := range fc.Ghosts {
		if gcl.Text != "" {
			continue // an initialised ghost is the callee's own counter: local to the call (see below)
		}
		bound := false
		for top := fr; top != nil; top = top.parent {
			if top.contract == nil {
				continue
			}
			for _, cg := range top.contract.CallGhosts {
				if cg.Ghost == gcl.Ghost && strings.HasSuffix(fc.Key, cg.CbName) {
					v := top.evalClauseAt(cg, s, nil, nil)
					if want := x.ghostSort(cf.ghostTypes[gcl.Ghost]); v.sort != want {
						cfail("%s: callghost %s: value has sort %s, want %s", x.P.posStr(cg.Pos), cg.Ghost, v.sort, want)
					}
					cf.olds[gcl.Ghost] = v
					bound = true
				}
			}
			if bound || top.top {
				break
			}
		}
		if !bound {
			if _, ok := s.ghost[gcl.Ghost]; !ok {
				cfail("%s: call to %s: its ghost %q has no instance here (add `callghost %s %s = EXPR` to the caller's contract or declare a ghost of that name)",
					x.P.posStr(pos), shortKey(fc.Key), gcl.Ghost, lastDot(fc.Key), gcl.Ghost)
			}
		}
	}
	x.funcsUnderContract[fc.Key] = true
	if fc.Trusted != "" {
		x.note("assumed contract (trusted): " + shortKey(fc.Key) + " — " + fc.Trusted)
	}
	pre := s.clone()
	cf.entry = pre
	for i, r := range fc.Requires {
		t := cf.evalClauseAt(r, pre, nil, nil)
		lab := r.Label
		if lab == "" {
			lab = fmt.Sprintf("%d", i+1)
		}
		fr.oblige("requires", shortKey(fc.Key)+"."+lab, pos, g, t, r.Text)
	}
	// call-site obligations stated by the calling function's contract
	for top := fr; top != nil; top = top.parent {
		if top.contract != nil {
			for _, cr := range top.contract.CallRequires {
				if !calleeMatches(fc.Key, cr.CbName) {
					continue
				}
				cr.Matched++
				extra := map[string]*Term{}
				top.cbArgTypes = map[string]types.Type{}
				var ats []types.Type
				if r := sig.Recv(); r != nil {
					ats = append(ats, r.Type())
				}
				for i := 0; i < sig.Params().Len(); i++ {
					ats = append(ats, sig.Params().At(i).Type())
				}
				for i, a := range args {
					if i < len(ats) {
						n := fmt.Sprintf("arg%d", i)
						extra[n] = a
						top.cbArgTypes[n] = ats[i]
					}
				}
				t := top.evalClauseAt(cr, pre, nil, extra)
				lab := cr.Label
				if lab == "" {
					lab = lastDot(fc.Key)
				}
				fr.oblige("callrequires", lab, pos, g, t, cr.Text)
				top.cbArgTypes = nil
			}
		}
		if top.top {
			break
		}
	}
	cf.evalOlds(pre)
	if fc.HasAssigns {
		var ts []target
		for _, a := range fc.Assigns {
			ts = append(ts, cf.evalTargets(a, pre, nil, nil)...)
		}
		fr.havocTargets(s, pre, ts, g)
	} else {
		fr.havocTargets(s, pre, []target{{kind: "all"}}, g)
	}
	na := c.Fresh("alloc", SInt)
	x.assume(g, c.IntCmp(">=", na, pre.alloc))
	s.alloc = na
	x.bindHavocBound(na)
	// effect counters: each call increments the caller's ghost counter of that name
	for _, ef := range fc.Effects {
		if v, ok := s.ghost[ef]; ok && bvWidth(v.sort) > 0 {
			s.ghost[ef] = c.BVBin("bvadd", v, c.BV(1, bvWidth(v.sort)))
		}
	}
	rt := resultType(sig)
	var res *Term
	extra := map[string]*Term{}
	if rt != nil {
		res = x.freshOf("ret_"+lastDot(fc.Key), rt)
		x.assumeWF(g, res, rt, s)
		bindResults(extra, sig, res)
	}
	// the callee's own (initialised) ghost counters are local to the call: its ensures clauses speak about their
	// final values, which are unknown here; the caller's ghosts of the same name are not touched by that
	savedGhost := map[string]*Term{}
	for _, gcl := range fc.Ghosts {
		if gcl.Text == "" {
			continue
		}
		savedGhost[gcl.Ghost] = s.ghost[gcl.Ghost]
		s.ghost[gcl.Ghost] = c.Fresh("callee_"+gcl.Ghost, x.ghostSort(cf.ghostTypes[gcl.Ghost]))
	}
	for _, e := range fc.Ensures {
		t := cf.evalClauseAt(e, s, nil, extra)
		x.assume(g, t)
	}
	for name, v := range savedGhost {
		if v == nil {
			delete(s.ghost, name)
		} else {
			s.ghost[name] = v
		}
	}
	// call-site assumptions stated by the calling function's contract (recorded as assumptions)
	for top := fr; top != nil; top = top.parent {
		if top.contract != nil {
			for _, ca := range top.contract.CallAssumes {
				if !calleeMatches(fc.Key, ca.CbName) {
					continue
				}
				ca.Matched++
				ex := map[string]*Term{}
				top.cbArgTypes = map[string]types.Type{}
				if res != nil {
					n := sig.Results().Len()
					for i := 0; i < n; i++ {
						name := fmt.Sprintf("ret%d", i)
						if n == 1 {
							ex[name] = res
						} else {
							ex[name] = res.args[i]
						}
						top.cbArgTypes[name] = sig.Results().At(i).Type()
					}
				}
				t := top.evalClauseAt(ca, s, nil, ex)
				x.assume(g, t)
				x.note("assumed at call site (callassumes): " + shortKey(top.contract.Key) + " after " + shortKey(fc.Key) + ": " + ca.Text)
				top.cbArgTypes = nil
			}
		}
		if top.top {
			break
		}
	}
	for _, ce := range fc.CondEffects {
		if v, ok := s.ghost[ce.Ghost]; ok && bvWidth(v.sort) > 0 {
			cond := cf.evalClauseAt(ce, s, nil, extra)
			s.ghost[ce.Ghost] = c.Ite(cond, c.BVBin("bvadd", v, c.BV(1, bvWidth(v.sort))), v)
		}
	}
	// an iterator-returning function with a `yields` clause: remember what the returned function value yields
	if len(fc.Yields) == 3 && res != nil && res.sort == SRef {
		idx := c.Fresh("rf_index", SBV(64))
		cf.cbArgTypes = map[string]types.Type{"rangeindex": types.Typ[types.Int]}
		ex := map[string]*Term{"rangeindex": idx}
		it := &iterInfo{idx: idx}
		it.n = cf.evalClauseAt(fc.Yields[0], s, nil, ex)
		it.key = cf.evalClauseAt(fc.Yields[1], s, nil, ex)
		it.val = cf.evalClauseAt(fc.Yields[2], s, nil, ex)
		cf.cbArgTypes = nil
		if x.iterators == nil {
			x.iterators = map[*Term]*iterInfo{}
		}
		x.iterators[res] = it
	}
	return res
}

// calleeMatches: a call-site clause names its callee by a suffix of the callee's key; the key of a contract written
// for one instantiation of a generic function ends in "[typeargs]", which the clause may leave out.
func calleeMatches(key, name string) bool {
	if strings.HasSuffix(key, name) {
		return true
	}
	if i := strings.LastIndex(key, "["); i > 0 && strings.HasSuffix(key, "]") {
		return strings.HasSuffix(key[:i], name)
	}
	return false
}

func lastDot(s string) string {
	if i := strings.LastIndex(s, "."); i >= 0 {
		return s[i+1:]
	}
	return s
}

func bindResults(extra map[string]*Term, sig *types.Signature, res *Term) {
	n := sig.Results().Len()
	if n == 1 {
		extra["result"] = res
		extra["result0"] = res
		if nm := sig.Results().At(0).Name(); nm != "" && nm != "_" {
			extra[nm] = res
		}
		return
	}
	for i := 0; i < n; i++ {
		extra[fmt.Sprintf("result%d", i)] = res.args[i]
		if nm := sig.Results().At(i).Name(); nm != "" && nm != "_" {
			extra[nm] = res.args[i]
		}
	}
}

func (fr *Frame) applyCallback(owner *Frame, s *State, g *Term, cb *CallbackContract, sig *types.Signature, args []*Term, pos token.Pos) *Term {
	x := fr.x
	extra := map[string]*Term{}
	for i, n := range cb.Args {
		if i < len(args) {
			extra[n] = args[i]
		}
	}
	owner.cbArgTypes = map[string]types.Type{}
	for i, n := range cb.Args {
		if i < sig.Params().Len() {
			owner.cbArgTypes[n] = sig.Params().At(i).Type()
		}
	}
	for i, r := range cb.Requires {
		t := owner.evalClauseAt(r, s, nil, extra)
		lab := r.Label
		if lab == "" {
			lab = fmt.Sprintf("%s.%d", cb.Name, i+1)
		}
		fr.oblige("callback", lab, pos, g, t, r.Text)
	}
	newGhost := map[string]*Term{}
	for _, u := range cb.Updates {
		newGhost[u.Ghost] = owner.evalClauseAt(u, s, nil, extra)
	}
	// the callback is arbitrary code: it may change the heap (not ghosts)
	ghosts := s.ghost
	if cb.Pure {
		x.note("callback " + cb.Name + " assumed not to write anything the function under contract can observe (callback ... pure)")
	} else {
		fr.havocAll(s, g, "callback "+cb.Name+" is arbitrary caller code")
	}
	s.ghost = ghosts
	for k, v := range newGhost {
		s.ghost[k] = v
	}
	rt := resultType(sig)
	if rt == nil {
		return nil
	}
	res := x.freshOf("cbret", rt)
	x.assumeWF(g, res, rt, s)
	if res.op == "tuple" {
		for i, a := range res.args {
			extra[fmt.Sprintf("ret%d", i)] = a
		}
	} else {
		extra["ret"] = res
	}
	owner.cbRetType = rt
	for _, r := range cb.Returns {
		x.assume(g, owner.evalClauseAt(r, s, nil, extra))
	}
	return res
}

// ---------- builtins ----------

func (fr *Frame) builtin(s *State, g *Term, b *ssa.Builtin, call *ssa.CallCommon, args []*Term, pos token.Pos) *Term {
	x := fr.x
	c := x.c
	switch b.Name() {
	case "len":
		return x.lenOf(s, args[0], call.Args[0].Type())
	case "cap":
		switch args[0].sort {
		case SSlice:
			return c.SlCap(args[0])
		}
		if a, ok := derefArray(call.Args[0].Type()); ok {
			return c.BV(uint64(a.Len()), 64)
		}
		return c.Fresh("cap", SBV(64))
	case "min", "max":
		r := args[0]
		signed := isSignedType(call.Args[0].Type())
		for _, a := range args[1:] {
			var lt *Term
			if bvWidth(a.sort) == 0 {
				return x.freshOf("minmax", call.Args[0].Type())
			}
			if signed {
				lt = c.BVCmp("bvslt", a, r)
			} else {
				lt = c.BVCmp("bvult", a, r)
			}
			if b.Name() == "min" {
				r = c.Ite(lt, a, r)
			} else {
				r = c.Ite(lt, r, a)
			}
		}
		return r
	case "copy":
		return fr.builtinCopy(s, g, args[0], args[1], call.Args[0].Type(), call.Args[1].Type())
	case "append":
		return fr.builtinAppend(s, g, args[0], args[1], call.Args[0].Type(), call.Args[1].Type())
	case "clear":
		switch u := call.Args[0].Type().Underlying().(type) {
		case *types.Slice:
			fr.fillSlice(s, g, args[0], u.Elem(), nil)
		case *types.Map:
			ks, _ := mapKeys(x, u)
			x.mapTag(args[0], u)
			P := x.mapPresent(s, ks)
			s.mem["mapP|"+ks] = c.Store(P, args[0], c.ConstArr(SArr(ks, SBool), c.False()))
		}
		return nil
	case "delete":
		mt := call.Args[0].Type().Underlying().(*types.Map)
		ks, _ := mapKeys(x, mt)
		x.mapTag(args[0], mt)
		P := x.mapPresent(s, ks)
		s.mem["mapP|"+ks] = c.Store(P, args[0], c.Store(c.Select(P, args[0]), args[1], c.False()))
		return nil
	case "print", "println":
		return nil
	case "Slice": // unsafe.Slice(p, n)
		p := args[0]
		n := fr.toIndex(args[1], call.Args[1].Type())
		fr.oblige("bounds", "", pos, g, c.And(c.BVCmp("bvule", n, c.BV(1<<56, 64)), c.Or(c.Neq(p, c.Null()), c.Eq(n, c.BV(0, 64)))), "unsafe.Slice: 0 <= len <= address space and non-nil pointer")
		x.note("unsafe.Slice(p, n): [p, p+n) is valid memory and p is an array element (caller's obligation under the unsafe rules)")
		path := c.RPath(p)
		x.assume(c.And(g, c.Neq(p, c.Null())), c.App("is-pelem", SBool, path))
		base := c.App("mkref", SRef, c.RRoot(p), c.Sel("pelem_par", "Path", path))
		return c.Ite(c.Eq(p, c.Null()), c.NilSlice(), c.MkSlice(base, c.Sel("pelem_idx", SBV(64), path), n, n))
	case "SliceData":
		sv := args[0]
		return c.Ite(c.Eq(c.SlPtr(sv), c.Null()), c.Null(), x.sliceElemAddr(sv, c.BV(0, 64)))
	case "ssa:wrapnilchk":
		return args[0]
	}
	x.note("builtin " + b.Name() + " abstracted")
	if rt := resultType(call.Signature()); rt != nil {
		return x.freshOf("builtin", rt)
	}
	return nil
}

func derefArray(t types.Type) (*types.Array, bool) {
	if p, ok := t.Underlying().(*types.Pointer); ok {
		t = p.Elem()
	}
	a, ok := t.Underlying().(*types.Array)
	return a, ok
}

func (x *Exec) lenOf(s *State, v *Term, t types.Type) *Term {
	c := x.c
	switch v.sort {
	case SSlice:
		return c.SlLen(v)
	case SStr:
		return c.StrLen(v)
	}
	if a, ok := derefArray(t); ok {
		return c.BV(uint64(a.Len()), 64)
	}
	if mt, ok := t.Underlying().(*types.Map); ok {
		ks, _ := mapKeys(x, mt)
		r := c.UF("map_len_"+sanitize(ks), SBV(64), c.Select(x.mapPresent(s, ks), v))
		x.assumeRawClosed(c.And(c.BVCmp("bvsge", r, c.BV(0, 64))))
		return r
	}
	return c.Fresh("len", SBV(64))
}

func (x *Exec) assumeRawClosed(f *Term) {
	if !f.open {
		x.assumeRaw(f)
	}
}

// fillSlice sets every element of slice sv to zero (val==nil) .
func (fr *Frame) fillSlice(s *State, g *Term, sv *Term, elem types.Type, val *Term) {
	x := fr.x
	c := x.c
	if !x.ti.isLeaf(elem) {
		x.note("clear() of non-leaf element slice abstracted")
		return
	}
	es := x.ti.sortOf(elem)
	if val == nil {
		val = x.ti.zeroOfSort(es)
	}
	old := x.memOf(s, es)
	nm := c.Fresh("mem_"+es, old.sort)
	r := c.BVar("r", SRef)
	idx := c.Sel("pelem_idx", SBV(64), c.RPath(r))
	in := c.And(x.isElemOf(r, c.SlPtr(sv)), c.BVCmp("bvule", c.SlOff(sv), idx), c.BVCmp("bvult", idx, c.BVBin("bvadd", c.SlOff(sv), c.SlLen(sv))))
	x.assume(g, c.Forall([]*Term{r}, c.Ite(in, c.Eq(c.Select(nm, r), val), c.Eq(c.Select(nm, r), c.Select(old, r))), c.Select(nm, r)))
	s.mem[es] = nm
}

// copy(dst, src): n = min(len(dst), len(src)); dst[i] = old src[i] for i<n.
func (fr *Frame) builtinCopy(s *State, g *Term, dst, src *Term, dt, st types.Type) *Term {
	x := fr.x
	c := x.c
	elem := dt.Underlying().(*types.Slice).Elem()
	var srcLen *Term
	if src.sort == SStr {
		srcLen = c.StrLen(src)
	} else {
		srcLen = c.SlLen(src)
	}
	n := c.Ite(c.BVCmp("bvult", srcLen, c.SlLen(dst)), srcLen, c.SlLen(dst))
	if !x.ti.isLeaf(elem) {
		x.note("copy() of non-leaf element slices abstracted")
		leafs := map[string]bool{}
		x.leafSorts(elem, leafs)
		for _, k := range sortedKeys(leafs) {
			s.mem[k] = c.Fresh("mem_"+k, x.memOf(s, k).sort)
		}
		return n
	}
	es := x.ti.sortOf(elem)
	old := x.memOf(s, es)
	// small constant n: explicit stores
	if n.isBVLit() && n.val <= 64 {
		m := old
		for i := uint64(0); i < n.val; i++ {
			iv := c.BV(i, 64)
			var v *Term
			if src.sort == SStr {
				v = c.StrAt(src, iv)
			} else {
				v = c.Select(old, x.sliceElemAddr(src, iv))
			}
			m = c.Store(m, x.sliceElemAddr(dst, iv), v)
		}
		s.mem[es] = m
		return n
	}
	nm := c.Fresh("mem_"+es, old.sort)
	r := c.BVar("r", SRef)
	idx := c.Sel("pelem_idx", SBV(64), c.RPath(r))
	rel := c.BVBin("bvsub", idx, c.SlOff(dst))
	in := c.And(x.isElemOf(r, c.SlPtr(dst)), c.BVCmp("bvule", c.SlOff(dst), idx), c.BVCmp("bvult", rel, n))
	var sv *Term
	if src.sort == SStr {
		sv = c.StrAt(src, rel)
	} else {
		sv = c.Select(old, x.sliceElemAddr(src, rel))
	}
	x.assume(g, c.Forall([]*Term{r}, c.Ite(in, c.Eq(c.Select(nm, r), sv), c.Eq(c.Select(nm, r), c.Select(old, r))), c.Select(nm, r)))
	s.mem[es] = nm
	return n
}

// append(sl, more...): in place when it fits, else a fresh backing array.
func (fr *Frame) builtinAppend(s *State, g *Term, sl, more *Term, st, mt types.Type) *Term {
	x := fr.x
	c := x.c
	elem := st.Underlying().(*types.Slice).Elem()
	var moreLen *Term
	if more.sort == SStr {
		moreLen = c.StrLen(more)
	} else {
		moreLen = c.SlLen(more)
	}
	newLen := c.BVBin("bvadd", c.SlLen(sl), moreLen)
	fits := c.BVCmp("bvule", newLen, c.SlCap(sl))
	fresh := c.Obj(s.alloc)
	s.alloc = c.IntBin("+", s.alloc, c.Int(1))
	ncap := c.Fresh("append_cap", SBV(64))
	x.assume(g, c.And(c.BVCmp("bvule", newLen, ncap), c.BVCmp("bvule", ncap, c.BV(1<<56, 64))))
	res := c.Ite(fits, c.MkSlice(c.SlPtr(sl), c.SlOff(sl), newLen, c.SlCap(sl)), c.MkSlice(fresh, c.BV(0, 64), newLen, ncap))
	if !x.ti.isLeaf(elem) {
		x.note("append() of non-leaf element slices: contents abstracted")
		leafs := map[string]bool{}
		x.leafSorts(elem, leafs)
		for _, k := range sortedKeys(leafs) {
			s.mem[k] = c.Fresh("mem_"+k, x.memOf(s, k).sort)
		}
		return res
	}
	es := x.ti.sortOf(elem)
	old := x.memOf(s, es)
	nm := c.Fresh("mem_"+es, old.sort)
	r := c.BVar("r", SRef)
	idx := c.Sel("pelem_idx", SBV(64), c.RPath(r))
	rel := c.BVBin("bvsub", idx, c.SlOff(res))
	inRes := c.And(x.isElemOf(r, c.SlPtr(res)), c.BVCmp("bvule", c.SlOff(res), idx), c.BVCmp("bvult", rel, newLen))
	var mv *Term
	mrel := c.BVBin("bvsub", rel, c.SlLen(sl))
	if more.sort == SStr {
		mv = c.StrAt(more, mrel)
	} else {
		mv = c.Select(old, x.sliceElemAddr(more, mrel))
	}
	val := c.Ite(c.BVCmp("bvult", rel, c.SlLen(sl)), c.Select(old, x.sliceElemAddr(sl, rel)), mv)
	x.assume(g, c.Forall([]*Term{r}, c.Ite(inRes, c.Eq(c.Select(nm, r), val), c.Eq(c.Select(nm, r), c.Select(old, r))), c.Select(nm, r)))
	s.mem[es] = nm
	return res
}

// ---------- recursive specification functions ----------

// readSorts: memory components a function (transitively, within the module) reads.
func (x *Exec) readSorts(fn *ssa.Function, seen map[*ssa.Function]bool, out map[string]bool) {
	if seen[fn] || fn.Blocks == nil {
		return
	}
	seen[fn] = true
	for _, b := range fn.Blocks {
		for _, ins := range b.Instrs {
			switch ins := ins.(type) {
			case *ssa.UnOp:
				if ins.Op == token.MUL && !rootedAtLocal(ins.X) {
					x.leafSorts(ins.Type(), out)
				}
			case *ssa.Lookup:
				if mt, ok := ins.X.Type().Underlying().(*types.Map); ok {
					ks, vs := mapKeys(x, mt)
					out["mapP|"+ks] = true
					out["mapV|"+ks+"|"+vs] = true
				}
			case *ssa.Call:
				if callee := ins.Call.StaticCallee(); callee != nil {
					x.readSorts(callee, seen, out)
				}
			}
		}
	}
}

// vocabularyCall: the contract vocabulary (implies, iff, ite, forall, exists)
// used inside a specification function body (i.e. reached through go/ssa
// rather than through the contract expression evaluator).
func (fr *Frame) vocabularyCall(s *State, callee *ssa.Function, args []*Term) (*Term, bool) {
	x := fr.x
	c := x.c
	o := callee
	if o.Origin() != nil {
		o = o.Origin()
	}
	if o.Pkg == nil || !specialFuncs[o.Name()] || o.Signature.Recv() != nil {
		return nil, false
	}
	if !x.P.ContractFilePos[o.Pkg.Pkg.Path()].IsValid() {
		return nil, false
	}
	if pos := x.P.Fset.Position(o.Pos()); !strings.HasSuffix(pos.Filename, contractFileName) {
		return nil, false
	}
	switch o.Name() {
	case "implies":
		return c.Implies(args[0], args[1]), true
	case "iff":
		return c.Eq(args[0], args[1]), true
	case "ite":
		return c.Ite(args[0], args[1], args[2]), true
	case "has":
		if mt, ok := types.Unalias(callee.Signature.Params().At(0).Type()).Underlying().(*types.Map); ok {
			ks, _ := mapKeys(x, mt)
			x.mapTag(args[0], mt)
			return c.And(c.Neq(args[0], c.Null()), c.Select(c.Select(x.mapPresent(s, ks), args[0]), args[1])), true
		}
		cfail("has(m, k) needs a map")
	case "liteContains":
		return c.UF("bart_lite_contains", SBool, c.RSub(args[0], 0), args[1]), true
	case "same":
		return c.Eq(args[0], args[1]), true
	case "locked":
		return c.Select(x.memOf(s, SBool), args[0]), true
	case "typed":
		if pt, ok := types.Unalias(callee.Signature.Params().At(0).Type()).Underlying().(*types.Pointer); ok {
			if f := x.ptrTagFormula(args[0], pt.Elem()); f != nil {
				return f, true
			}
		}
		return c.True(), true
	case "forall", "exists":
		ci := x.closures[args[0]]
		if ci == nil || ci.fn.Blocks == nil {
			cfail("%s in a specification function needs a function literal argument", o.Name())
		}
		var bvs []*Term
		for _, p := range ci.fn.Params {
			bvs = append(bvs, c.BVar(p.Name(), x.ti.sortOf(p.Type())))
		}
		body := fr.inlineCall(s.clone(), c.True(), ci.fn, bvs, ci.bindings, true)
		if o.Name() == "forall" {
			return c.Forall(bvs, body), true
		}
		return c.Exists(bvs, body), true
	}
	cfail("contract vocabulary function %s cannot be used inside a specification function body", o.Name())
	return nil, false
}

// opaqueApp: an `opaque` pure function is an uninterpreted function of its
// arguments unless the function being verified reveals it.
func (fr *Frame) opaqueApp(fc *FuncContract, callee *ssa.Function, args []*Term) (*Term, bool) {
	if !fc.Opaque {
		return nil, false
	}
	name := lastDot(fc.Key)
	// only the function being verified can reveal (a callee's or lemma's `reveal` is about its own proof)
	top := fr
	for top.parent != nil && !top.top {
		top = top.parent
	}
	if top.contract != nil {
		for _, r := range top.contract.Reveal {
			if r == name {
				return nil, false
			}
		}
	}
	x := fr.x
	rt := resultType(callee.Signature)
	if rt == nil {
		cfail("opaque function %s has no result", fc.Key)
	}
	if _, isTup := rt.(*types.Tuple); isTup {
		cfail("opaque function %s must have a single result", fc.Key)
	}
	sorts := map[string]bool{}
	x.readSorts(callee, map[*ssa.Function]bool{}, sorts)
	if len(sorts) > 0 {
		cfail("opaque function %s reads memory; only arithmetic functions can be opaque", fc.Key)
	}
	return x.c.UF("opq_"+sanitize(shortKey(fc.Key)), x.ti.sortOf(rt), args...), true
}

// rootedAtLocal: the address is a field/element of a local variable of the function.
func rootedAtLocal(v ssa.Value) bool {
	for {
		switch a := v.(type) {
		case *ssa.Alloc:
			return true
		case *ssa.FieldAddr:
			v = a.X
		case *ssa.IndexAddr:
			if _, isPtr := a.X.Type().Underlying().(*types.Pointer); !isPtr {
				return false
			}
			v = a.X
		default:
			return false
		}
	}
}

// applyRecursive: the call is an application of an uninterpreted function of
// the arguments and of the memory the function reads; its definition (the
// body, with inner recursive calls again as applications) is added as a
// definitional fact, unfolded to the depth the contract asks for.
func (fr *Frame) applyRecursive(s *State, callee *ssa.Function, fc *FuncContract, args []*Term) *Term {
	x := fr.x
	c := x.c
	key := funcKey(callee)
	rt := resultType(callee.Signature)
	if rt == nil {
		cfail("recursive spec function %s has no result", key)
	}
	if _, isTup := rt.(*types.Tuple); isTup {
		cfail("recursive spec function %s must have a single result (use a struct)", key)
	}
	sorts := map[string]bool{}
	x.readSorts(callee, map[*ssa.Function]bool{}, sorts)
	var ufargs []*Term
	for _, k := range sortedKeys(sorts) {
		base := s
		if fr.spec && fr.specBase != nil {
			base = fr.specBase
		}
		ufargs = append(ufargs, x.memByKey(base, k))
	}
	ufargs = append(ufargs, args...)
	app := c.UF("rec_"+sanitize(shortKey(key)), x.ti.sortOf(rt), ufargs...)
	if x.recDepth == nil {
		x.recDepth = map[string]int{}
		x.recDone = map[*Term]bool{}
	}
	if app.open || x.recDepth[key] >= fc.Recursive || x.recDone[app] {
		return app
	}
	x.recDone[app] = true
	x.recDepth[key]++
	body := fr.inlineCall(s.clone(), c.True(), callee, args, nil, true)
	x.recDepth[key]--
	x.assumeRaw(c.Eq(app, body))
	x.note("recursive specification function " + shortKey(key) + " is an uninterpreted function with its defining equation unfolded at each application; its termination (decreasing fuel) is by inspection")
	return app
}

package main

// solve.go: discharge obligations by racing z3 4.8.12, z3-new 5.1.0 and cvc5.

import (
	"bytes"
	"context"
	"fmt"
	"os"
	"os/exec"
	"path/filepath"
	"regexp"
	"sort"
	"strings"
	"sync"
	"time"
)

type solverSpec struct {
	name string
	argv func(file string, timeoutS int) []string
}

var solvers = []solverSpec{
	{"z3-new-5.1.0", func(f string, t int) []string { return []string{"z3-new", fmt.Sprintf("-T:%d", t), f} }},
	{"z3-4.8.12", func(f string, t int) []string { return []string{"z3", fmt.Sprintf("-T:%d", t), f} }},
	{"cvc5-1.0.3", func(f string, t int) []string {
		return []string{"cvc5", "--lang=smt2", fmt.Sprintf("--tlimit=%d", t*1000), f}
	}},
}

type solveResult struct {
	status  string // unsat | sat | unknown
	solver  string
	seconds float64
	output  string
}

func firstLine(s string) string {
	for _, l := range strings.Split(s, "\n") {
		l = strings.TrimSpace(l)
		if l != "" {
			return l
		}
	}
	return ""
}

// raceSolvers runs all solvers on the script; first decisive answer wins.
func raceSolvers(script string, dir string, name string, timeoutS int) solveResult {
	return raceSolvers2(script, "", "", "", dir, name, timeoutS)
}

var intblast = solverSpec{"cvc5-1.0.3-intblast", func(f string, t int) []string {
	return []string{"cvc5", "--lang=smt2", "--solve-bv-as-int=sum", fmt.Sprintf("--tlimit=%d", t*1000), f}
}}

// raceSolvers2 additionally races the quantifier-free "ground" variant of the
// query (quantified assumptions replaced by instances; see groundScript) on
// z3-new and on cvc5 with bit-vectors translated to integers. The ground
// variant has fewer assumptions, so only its `unsat` answers count.
func raceSolvers2(script, ground, noq, mul string, dir string, name string, timeoutS int) solveResult {
	file := filepath.Join(dir, sanitizeFile(name)+".smt2")
	os.WriteFile(file, []byte(script), 0o644)
	ctx, cancel := context.WithCancel(context.Background())
	defer cancel()
	type job struct {
		sp        solverSpec
		file      string
		unsatOnly bool
	}
	var jobs []job
	for _, sp := range solvers {
		jobs = append(jobs, job{sp, file, false})
	}
	nonlinear := func(s string) bool {
		return strings.Contains(s, "(bvudiv ") || strings.Contains(s, "(bvurem ") || strings.Contains(s, "(bvmul ") || strings.Contains(s, "(bvsdiv ") || strings.Contains(s, "(bvsrem ")
	}
	if !strings.Contains(script, "(forall ") {
		// also try cvc5's translation of bit-vectors to integers (non-linear arithmetic, and 64-bit linear
		// arithmetic with comparisons, which bit-blasting decides slowly)
		jobs = append(jobs, job{intblast, file, false})
	}
	if ground != "" {
		gfile := filepath.Join(dir, sanitizeFile(name)+".ground.smt2")
		os.WriteFile(gfile, []byte(ground), 0o644)
		jobs = append(jobs, job{solverSpec{"z3-new-5.1.0/ground", solvers[0].argv}, gfile, true})
		jobs = append(jobs, job{solverSpec{"cvc5-1.0.3-intblast/ground", intblast.argv}, gfile, true})
	}
	if noq != "" {
		qfile := filepath.Join(dir, sanitizeFile(name)+".noq.smt2")
		os.WriteFile(qfile, []byte(noq), 0o644)
		jobs = append(jobs, job{solverSpec{"z3-new-5.1.0/noq", solvers[0].argv}, qfile, true})
		if nonlinear(noq) {
			jobs = append(jobs, job{solverSpec{"cvc5-1.0.3-intblast/noq", intblast.argv}, qfile, true})
		} else {
			jobs = append(jobs, job{solverSpec{"cvc5-1.0.3/noq", solvers[2].argv}, qfile, true})
		}
	}
	if mul != "" {
		mfile := filepath.Join(dir, sanitizeFile(name)+".mul.smt2")
		os.WriteFile(mfile, []byte(mul), 0o644)
		jobs = append(jobs, job{solverSpec{"cvc5-1.0.3-intblast/mulUF", intblast.argv}, mfile, true})
		jobs = append(jobs, job{solverSpec{"z3-new-5.1.0/mulUF", solvers[0].argv}, mfile, true})
	}
	ch := make(chan solveResult, len(jobs))
	start := time.Now()
	for _, jb := range jobs {
		jb := jb
		go func() {
			argv := jb.sp.argv(jb.file, timeoutS)
			cmd := exec.CommandContext(ctx, argv[0], argv[1:]...)
			var out bytes.Buffer
			cmd.Stdout = &out
			cmd.Stderr = &out
			t0 := time.Now()
			cmd.Run()
			o := out.String()
			st := "unknown"
			switch firstLine(o) {
			case "unsat":
				st = "unsat"
			case "sat":
				if !jb.unsatOnly {
					st = "sat"
				}
			default:
				// an ill-formed query is a bug of the generator, never an answer
				if fl := firstLine(o); strings.HasPrefix(fl, "(error") && !strings.Contains(fl, "bv-to-int") && !strings.Contains(fl, "option") && !jb.unsatOnly && jb.sp.name == "z3-new-5.1.0" {
					st = "error"
				}
			}
			ch <- solveResult{status: st, solver: jb.sp.name, seconds: time.Since(t0).Seconds(), output: o}
		}()
	}
	var outs []string
	var satRes *solveResult
	for i := 0; i < len(jobs); i++ {
		r := <-ch
		if r.status == "error" {
			cancel()
			r.seconds = time.Since(start).Seconds()
			return r
		}
		if r.status == "unsat" {
			cancel()
			r.seconds = time.Since(start).Seconds()
			return r
		}
		if r.status == "sat" && satRes == nil {
			rr := r
			satRes = &rr
			// a sat answer from one solver: still let others finish briefly? take it.
			cancel()
			rr.seconds = time.Since(start).Seconds()
			return rr
		}
		outs = append(outs, r.solver+": "+trunc(strings.TrimSpace(r.output), 300))
	}
	return solveResult{status: "unknown", solver: "all", seconds: time.Since(start).Seconds(), output: strings.Join(outs, "\n")}
}

var fileRe = regexp.MustCompile(`[^A-Za-z0-9_.\-]+`)

func sanitizeFile(s string) string {
	s = fileRe.ReplaceAllString(s, "_")
	if len(s) > 150 {
		s = s[:150]
	}
	return s
}

// obligationScript builds the SMT query for an obligation: unsat = discharged.
// Universally quantified goals are skolemised here, and every quantified
// assumption is additionally instantiated at the terms of matching sort that
// occur in the goal (the quantified originals stay in the query, so this only
// helps the solver and changes nothing about what is proved).
func (x *Exec) obligationScript(o *Obligation, getValues []*Term) string {
	c := x.c
	var asserts []*Term
	asserts = append(asserts, o.Assums[:o.NAssum]...)
	goal := c.skolemize(o.Cond)
	asserts = append(asserts, o.Guard, c.Not(goal))
	if os.Getenv("GOVC_INSTANTIATE") != "" && (goal != o.Cond || hasQuantifier(asserts)) {
		pool := c.poolOf([]*Term{goal, o.Guard}, 20)
		var inst []*Term
		for _, a := range o.Assums[:o.NAssum] {
			inst = append(inst, c.instances(a, pool)...)
		}
		asserts = append(asserts, inst...)
	}
	return c.Script(asserts, ScriptOpts{ProduceModels: len(getValues) > 0, GetValues: getValues})
}

// groundScript: the quantifier-free variant of an obligation's query. Every
// universally quantified assumption is replaced by its instances at ground
// terms of the right sort that occur in the goal and in the other
// assumptions (array indices first). Dropping or weakening assumptions is
// sound: an `unsat` answer for this variant discharges the obligation.
func (x *Exec) groundScript(o *Obligation, noInst bool) string {
	c := x.c
	goal := c.skolemize(o.Cond)
	if goal.hasQ || o.Guard.hasQ {
		return ""
	}
	var ground, quant []*Term
	for _, a := range o.Assums[:o.NAssum] {
		if a.hasQ {
			quant = append(quant, a)
		} else {
			ground = append(ground, a)
		}
	}
	if len(quant) == 0 {
		return ""
	}
	if noInst {
		// quantified assumptions dropped altogether (fewer assumptions: an unsat answer still proves the obligation)
		return c.Script(append(append([]*Term{}, ground...), o.Guard, c.Not(goal)), ScriptOpts{})
	}
	base := append(append([]*Term{}, ground...), goal, o.Guard)
	pool := c.instPool(base, 48)
	asserts := append([]*Term{}, ground...)
	for round := 0; round < 2; round++ {
		var inst []*Term
		for _, q := range quant {
			for _, t := range c.instances(q, pool) {
				if !t.hasQ {
					inst = append(inst, t)
				}
			}
		}
		if round == 0 {
			// second round: terms introduced by the first instances (e.g. a frame axiom's other memory)
			pool = c.instPool(append(append([]*Term{}, base...), inst...), 64)
			continue
		}
		asserts = append(asserts, inst...)
	}
	asserts = append(asserts, o.Guard, c.Not(goal))
	return c.Script(asserts, ScriptOpts{})
}

// mulUFScript: the obligation without its quantified assumptions and with products of two variables abstracted to an
// uninterpreted function (plus commutativity instances). "" when there is no such product or the goal is quantified.
func (x *Exec) mulUFScript(o *Obligation) string {
	c := x.c
	goal := c.skolemize(o.Cond)
	if goal.hasQ || o.Guard.hasQ {
		return ""
	}
	var ground []*Term
	for _, a := range o.Assums[:o.NAssum] {
		if !a.hasQ {
			ground = append(ground, a)
		}
	}
	ts, facts, changed := c.AbstractMul(append(append([]*Term{}, ground...), o.Guard, c.Not(goal)))
	if !changed {
		return ""
	}
	return c.Script(append(ts, facts...), ScriptOpts{})
}

// instPool: candidate instantiation terms by sort: indices of array reads
// (select) first, then other small closed terms.
func (c *Ctx) instPool(ts []*Term, n int) map[string][]*Term {
	seen := map[*Term]bool{}
	prio := map[string][]*Term{}
	rest := map[string][]*Term{}
	inPrio := map[*Term]bool{}
	seenIdx := map[*Term]bool{}
	var idxs []*Term
	var walk func(t *Term)
	walk = func(t *Term) {
		if seen[t] || t.hasQ {
			return
		}
		seen[t] = true
		for _, a := range t.args {
			walk(a)
		}
		if t.op == "pelem" && !t.open && !t.args[1].isLit() && !seenIdx[t.args[1]] {
			seenIdx[t.args[1]] = true
			idxs = append(idxs, t.args[1])
		}
		if t.op == "select" && !t.args[1].open && !t.args[1].isLit() && !inPrio[t.args[1]] {
			inPrio[t.args[1]] = true
			prio[t.args[1].sort] = append(prio[t.args[1].sort], t.args[1])
		}
		if !t.open && !t.isLit() && (bvWidth(t.sort) == 64 || t.sort == SRef || t.sort == "Addr") {
			rest[t.sort] = append(rest[t.sort], t)
		}
	}
	for _, t := range ts {
		walk(t)
	}
	out := map[string][]*Term{}
	for s, l := range prio {
		out[s] = l
	}
	for s, l := range rest {
		sort.SliceStable(l, func(i, j int) bool { return termSize(l[i], 10) < termSize(l[j], 10) })
		for _, t := range l {
			if len(out[s]) >= n {
				break
			}
			if !inPrio[t] {
				out[s] = append(out[s], t)
			}
		}
	}
	for s, l := range out {
		if len(l) > n {
			out[s] = l[:n]
		}
	}
	if len(idxs) > 32 {
		idxs = idxs[:32]
	}
	out["$elemidx"] = idxs
	return out
}

// triggerCandidates: for a bound variable b that occurs in the body only as a slice/array element index
// (pelem(P, b) or pelem(P, B+b) with B closed), the instantiation terms that make such an index coincide with an
// element index of the ground part of the query (E-matching on the element-address pattern).
func (c *Ctx) triggerCandidates(body, b *Term, idxs []*Term) []*Term {
	var offs []*Term // nil entry: index is b itself
	found := false
	seen := map[*Term]bool{}
	var walk func(t *Term)
	walk = func(t *Term) {
		if seen[t] || !t.open {
			return
		}
		seen[t] = true
		if t.op == "pelem" {
			e := t.args[1]
			switch {
			case e == b:
				offs = append(offs, nil)
				found = true
			case e.op == "bvadd" && len(e.args) == 2 && e.args[1] == b && !e.args[0].open:
				offs = append(offs, e.args[0])
				found = true
			case e.op == "bvadd" && len(e.args) == 2 && e.args[0] == b && !e.args[1].open:
				offs = append(offs, e.args[1])
				found = true
			}
		}
		for _, a := range t.args {
			walk(a)
		}
	}
	walk(body)
	if !found {
		return nil
	}
	var out []*Term
	dup := map[*Term]bool{}
	add := func(t *Term) {
		if !dup[t] && t.sort == b.sort {
			dup[t] = true
			out = append(out, t)
		}
	}
	for _, off := range offs {
		for _, e := range idxs {
			switch {
			case off == nil:
				add(e)
			case e.op == "bvadd" && len(e.args) == 2 && e.args[0] == off:
				add(e.args[1])
			case e.op == "bvadd" && len(e.args) == 2 && e.args[1] == off:
				add(e.args[0])
			case e == off:
				add(c.BV(0, bvWidth(b.sort)))
			default:
				add(c.BVBin("bvsub", e, off))
			}
		}
	}
	if len(out) > 24 {
		out = out[:24]
	}
	return out
}

func hasQuantifier(ts []*Term) bool {
	for _, t := range ts {
		if !t.hasQ {
			continue
		}
		if t.op == "forall" || (t.op == "=>" && t.args[1].op == "forall") || t.op == "and" {
			var found bool
			var walk func(t *Term)
			walk = func(t *Term) {
				if found {
					return
				}
				switch t.op {
				case "forall":
					found = true
				case "and":
					for _, a := range t.args {
						walk(a)
					}
				case "=>":
					walk(t.args[1])
				}
			}
			walk(t)
			if found {
				return true
			}
		}
	}
	return false
}

// skolemize replaces universally quantified subformulas in positive position
// (under and / or / the consequent of =>) by instances at fresh constants.
func (c *Ctx) skolemize(t *Term) *Term {
	if !t.hasQ {
		return t
	}
	switch t.op {
	case "forall":
		m := map[*Term]*Term{}
		for _, b := range t.bvs {
			m[b] = c.Fresh("sk_"+strings.SplitN(b.name, "?", 2)[0], b.sort)
		}
		return c.skolemize(c.Subst(t.args[0], m))
	case "and":
		args := make([]*Term, len(t.args))
		for i, a := range t.args {
			args[i] = c.skolemize(a)
		}
		return c.And(args...)
	case "or":
		args := make([]*Term, len(t.args))
		for i, a := range t.args {
			args[i] = c.skolemize(a)
		}
		return c.Or(args...)
	case "=>":
		return c.Implies(t.args[0], c.skolemize(t.args[1]))
	}
	return t
}

// poolOf: closed non-literal subterms of the given formulas, grouped by sort (at most n per sort, smallest first).
func (c *Ctx) poolOf(ts []*Term, n int) map[string][]*Term {
	seen := map[*Term]bool{}
	bySort := map[string][]*Term{}
	var walk func(t *Term)
	walk = func(t *Term) {
		if seen[t] {
			return
		}
		seen[t] = true
		if t.op == "forall" || t.op == "exists" {
			return
		}
		for _, a := range t.args {
			walk(a)
		}
		if !t.open && !t.isLit() && (bvWidth(t.sort) > 0 || t.sort == SRef || t.sort == "Addr") {
			bySort[t.sort] = append(bySort[t.sort], t)
		}
	}
	for _, t := range ts {
		walk(t)
	}
	for s, l := range bySort {
		// prefer skolem constants and small terms
		sort.SliceStable(l, func(i, j int) bool { return termSize(l[i], 12) < termSize(l[j], 12) })
		if len(l) > n {
			l = l[:n]
		}
		bySort[s] = l
	}
	return bySort
}

func termSize(t *Term, cap int) int {
	n := 1
	for _, a := range t.args {
		if n > cap {
			break
		}
		n += termSize(a, cap-n)
	}
	return n
}

// instances of the universally quantified parts of an assumption at the pool terms.
func (c *Ctx) instances(a *Term, pool map[string][]*Term) []*Term {
	var out []*Term
	var rec func(t *Term, guards []*Term)
	rec = func(t *Term, guards []*Term) {
		switch t.op {
		case "and":
			for _, x := range t.args {
				rec(x, guards)
			}
		case "=>":
			rec(t.args[1], append(append([]*Term{}, guards...), t.args[0]))
		case "forall":
			if len(t.bvs) > 2 {
				return
			}
			var combos [][]*Term
			first := pool[t.bvs[0].sort]
			if tc := c.triggerCandidates(t.args[0], t.bvs[0], pool["$elemidx"]); len(tc) > 0 {
				first = tc
			}
			if len(t.bvs) == 1 {
				for _, p := range first {
					combos = append(combos, []*Term{p})
				}
			} else {
				second := pool[t.bvs[1].sort]
				for _, p := range first {
					for _, q := range second {
						if len(combos) < 64 {
							combos = append(combos, []*Term{p, q})
						}
					}
				}
			}
			for _, cb := range combos {
				m := map[*Term]*Term{}
				for i, b := range t.bvs {
					m[b] = cb[i]
				}
				body := c.Subst(t.args[0], m)
				if body.open {
					continue
				}
				out = append(out, c.Implies(c.And(guards...), body))
			}
		}
	}
	rec(a, nil)
	return out
}

// dischargeAll solves all obligations in parallel.
func (x *Exec) dischargeAll(obls []*Obligation, dir string, timeoutS int, par int) {
	os.MkdirAll(dir, 0o755)
	// scripts are generated sequentially (term table is not thread-safe)
	scripts := make([]string, len(obls))
	grounds := make([]string, len(obls))
	noqs := make([]string, len(obls))
	muls := make([]string, len(obls))
	for i, o := range obls {
		if o.Status == "skipped" {
			continue
		}
		if o.Cond.isTrue() || o.Guard.isFalse() {
			o.Status = "discharged"
			o.Solver = "simplifier"
			continue
		}
		scripts[i] = x.obligationScript(o, nil)
		o.SMTBytes = len(scripts[i])
		if k := o.Kind; !(k == "nil" || k == "bounds" || k == "div" || k == "shift" || k == "typeassert") {
			grounds[i] = x.groundScript(o, false)
			noqs[i] = x.groundScript(o, true)
			muls[i] = x.mulUFScript(o)
		}
	}
	sem := make(chan struct{}, par)
	var wg sync.WaitGroup
	// Batches: consecutive run-time-safety obligations made under the same
	// assumptions are first tried as one query (the disjunction of their
	// negations); unsat discharges every member. Otherwise each is tried alone.
	type batch struct{ idx []int }
	var batches []batch
	safety := func(k string) bool { return k == "nil" || k == "bounds" || k == "div" || k == "shift" || k == "typeassert" }
	for i := 0; i < len(obls); {
		o := obls[i]
		if o.Status != "" || !safety(o.Kind) {
			i++
			continue
		}
		j := i
		var idx []int
		for j < len(obls) && len(idx) < 24 && obls[j].Func == o.Func && obls[j].NAssum == o.NAssum && (obls[j].Status != "" || safety(obls[j].Kind)) {
			if obls[j].Status == "" {
				idx = append(idx, j)
			}
			j++
		}
		if len(idx) >= 2 {
			batches = append(batches, batch{idx})
		}
		i = j
	}
	batchScripts := make([]string, len(batches))
	for bi, b := range batches {
		var disj []*Term
		for _, k := range b.idx {
			disj = append(disj, x.c.And(obls[k].Guard, x.c.Not(obls[k].Cond)))
		}
		var asserts []*Term
		asserts = append(asserts, obls[b.idx[0]].Assums[:obls[b.idx[0]].NAssum]...)
		asserts = append(asserts, x.c.Or(disj...))
		batchScripts[bi] = x.c.Script(asserts, ScriptOpts{})
	}
	for bi, b := range batches {
		bi, b := bi, b
		wg.Add(1)
		sem <- struct{}{}
		go func() {
			defer wg.Done()
			defer func() { <-sem }()
			r := raceSolvers(batchScripts[bi], dir, fmt.Sprintf("batch%d_%s", bi, obls[b.idx[0]].Name), min(timeoutS, 20))
			if r.status == "unsat" {
				for _, k := range b.idx {
					obls[k].Status = "discharged"
					obls[k].Solver = r.solver + " (batch)"
					obls[k].Seconds = r.seconds / float64(len(b.idx))
				}
			}
		}()
	}
	wg.Wait()
	for i, o := range obls {
		if o.Status != "" {
			continue
		}
		i, o := i, o
		wg.Add(1)
		sem <- struct{}{}
		go func() {
			defer wg.Done()
			defer func() { <-sem }()
			r := raceSolvers2(scripts[i], grounds[i], noqs[i], muls[i], dir, o.Name, timeoutS)
			o.Solver = r.solver
			o.Seconds = r.seconds
			o.Output = r.output
			switch r.status {
			case "unsat":
				o.Status = "discharged"
			case "sat":
				o.Status = "failed"
			case "error":
				o.Status = "engine-error"
			default:
				o.Status = "unknown"
			}
		}()
	}
	wg.Wait()
	// Second chance, with the machine (almost) to itself and twice the budget: an obligation that no solver
	// answered while up to par*10 solver processes were competing for the cores is not yet a failure (solver time
	// limits are wall-clock). At most 6 obligations are retried, two at a time, so a genuinely broken tree still fails promptly.
	var again []int
	for i, o := range obls {
		if o.Status == "unknown" && scripts[i] != "" && len(again) < 6 {
			again = append(again, i)
		}
	}
	sem2 := make(chan struct{}, 2)
	var wg2 sync.WaitGroup
	for _, i := range again {
		i := i
		o := obls[i]
		wg2.Add(1)
		sem2 <- struct{}{}
		go func() {
			defer wg2.Done()
			defer func() { <-sem2 }()
			r := raceSolvers2(scripts[i], grounds[i], noqs[i], muls[i], dir, o.Name+".retry", 2*timeoutS)
			if r.status == "unsat" || r.status == "sat" {
				o.Solver = r.solver + " (retry)"
				o.Seconds += r.seconds
				o.Output = r.output
				if r.status == "unsat" {
					o.Status = "discharged"
				} else {
					o.Status = "failed"
				}
			}
		}()
	}
	wg2.Wait()
}

// queryModel re-runs z3 with get-value for the given terms; returns values by index.
func (x *Exec) queryModel(o *Obligation, terms []*Term, dir string, timeoutS int) ([]string, bool) {
	script := x.obligationScript(o, terms)
	file := filepath.Join(dir, sanitizeFile(o.Name)+".model.smt2")
	os.WriteFile(file, []byte(script), 0o644)
	for _, sv := range []string{"z3-new", "z3"} {
		ctx, cancel := context.WithTimeout(context.Background(), time.Duration(timeoutS+5)*time.Second)
		cmd := exec.CommandContext(ctx, sv, fmt.Sprintf("-T:%d", timeoutS), file)
		var out bytes.Buffer
		cmd.Stdout = &out
		cmd.Run()
		cancel()
		o2 := out.String()
		if firstLine(o2) != "sat" {
			continue
		}
		rest := o2[strings.Index(o2, "sat")+3:]
		vals := parseGetValue(rest, len(terms))
		if vals != nil {
			return vals, true
		}
	}
	return nil, false
}

// parseGetValue parses "((t1 v1) (t2 v2) ...)" returning the value texts in order.
func parseGetValue(s string, n int) []string {
	toks := sexpTokens(s)
	pos := 0
	var parse func() any
	parse = func() any {
		if pos >= len(toks) {
			return nil
		}
		t := toks[pos]
		pos++
		if t == "(" {
			var l []any
			for pos < len(toks) && toks[pos] != ")" {
				l = append(l, parse())
			}
			pos++
			return l
		}
		return t
	}
	top, ok := parse().([]any)
	if !ok {
		return nil
	}
	var out []string
	for _, p := range top {
		pair, ok := p.([]any)
		if !ok || len(pair) != 2 {
			return nil
		}
		out = append(out, sexpString(pair[1]))
	}
	if len(out) != n {
		return nil
	}
	return out
}

func sexpTokens(s string) []string {
	var toks []string
	i := 0
	for i < len(s) {
		ch := s[i]
		switch {
		case ch == '(' || ch == ')':
			toks = append(toks, string(ch))
			i++
		case ch == ' ' || ch == '\n' || ch == '\t' || ch == '\r':
			i++
		case ch == '|':
			j := strings.IndexByte(s[i+1:], '|')
			if j < 0 {
				return toks
			}
			toks = append(toks, s[i:i+j+2])
			i += j + 2
		case ch == '"':
			j := strings.IndexByte(s[i+1:], '"')
			if j < 0 {
				return toks
			}
			toks = append(toks, s[i:i+j+2])
			i += j + 2
		default:
			j := i
			for j < len(s) && !strings.ContainsRune("() \n\t\r", rune(s[j])) {
				j++
			}
			toks = append(toks, s[i:j])
			i = j
		}
	}
	return toks
}

func sexpString(v any) string {
	switch t := v.(type) {
	case string:
		return t
	case []any:
		var parts []string
		for _, e := range t {
			parts = append(parts, sexpString(e))
		}
		return "(" + strings.Join(parts, " ") + ")"
	}
	return ""
}

// scalarModel returns the scalar constants (name -> value) of a model of the failed obligation.
func (x *Exec) scalarModel(o *Obligation, dir string, timeoutS int) map[string]string {
	script := x.obligationScript(o, nil)
	script = strings.Replace(script, "(set-logic ALL)", "(set-option :produce-models true)\n(set-logic ALL)", 1) + "(get-model)\n"
	file := filepath.Join(dir, sanitizeFile(o.Name)+".getmodel.smt2")
	os.WriteFile(file, []byte(script), 0o644)
	ctx, cancel := context.WithTimeout(context.Background(), time.Duration(timeoutS+5)*time.Second)
	defer cancel()
	cmd := exec.CommandContext(ctx, "z3-new", fmt.Sprintf("-T:%d", timeoutS), file)
	var out bytes.Buffer
	cmd.Stdout = &out
	cmd.Run()
	s := out.String()
	if firstLine(s) != "sat" {
		return nil
	}
	toks := sexpTokens(s[strings.Index(s, "sat")+3:])
	res := map[string]string{}
	// scan for ( define-fun NAME ( ) SORT VALUE )
	for i := 0; i+4 < len(toks); i++ {
		if toks[i] == "define-fun" && toks[i+2] == "(" && toks[i+3] == ")" {
			name := toks[i+1]
			j := i + 4
			// skip sort
			depth := 0
			for ; j < len(toks); j++ {
				if toks[j] == "(" {
					depth++
				} else if toks[j] == ")" {
					depth--
				}
				if depth == 0 {
					j++
					break
				}
			}
			// value: one token or balanced list
			if j < len(toks) {
				if toks[j] != "(" {
					res[name] = toks[j]
				} else {
					depth = 0
					var parts []string
					for k := j; k < len(toks); k++ {
						parts = append(parts, toks[k])
						if toks[k] == "(" {
							depth++
						} else if toks[k] == ")" {
							depth--
							if depth == 0 {
								break
							}
						}
					}
					v := strings.Join(parts, " ")
					if len(v) < 80 {
						res[name] = v
					}
				}
			}
		}
	}
	return res
}

package main

// solve.go: discharge obligations by racing z3 4.8.12, z3-new 5.1.0 and cvc5.

import (
	"bytes"
	"context"
	"fmt"
	"os"
	"os/exec"
	"path/filepath"
	"regexp"
	"strings"
	"sync"
	"time"
)

type solverSpec struct {
	name string
	argv func(file string, timeoutS int) []string
}

var solvers = []solverSpec{
	{"z3-new-5.1.0", func(f string, t int) []string { return []string{"z3-new", fmt.Sprintf("-T:%d", t), f} }},
	{"z3-4.8.12", func(f string, t int) []string { return []string{"z3", fmt.Sprintf("-T:%d", t), f} }},
	{"cvc5-1.0.3", func(f string, t int) []string {
		return []string{"cvc5", "--lang=smt2", fmt.Sprintf("--tlimit=%d", t*1000), f}
	}},
}

type solveResult struct {
	status  string // unsat | sat | unknown
	solver  string
	seconds float64
	output  string
}

func firstLine(s string) string {
	for _, l := range strings.Split(s, "\n") {
		l = strings.TrimSpace(l)
		if l != "" {
			return l
		}
	}
	return ""
}

// raceSolvers runs all solvers on the script; first decisive answer wins.
func raceSolvers(script string, dir string, name string, timeoutS int) solveResult {
	file := filepath.Join(dir, sanitizeFile(name)+".smt2")
	os.WriteFile(file, []byte(script), 0o644)
	ctx, cancel := context.WithCancel(context.Background())
	defer cancel()
	type res struct {
		r solveResult
	}
	ch := make(chan solveResult, len(solvers))
	start := time.Now()
	for _, sp := range solvers {
		sp := sp
		go func() {
			argv := sp.argv(file, timeoutS)
			cmd := exec.CommandContext(ctx, argv[0], argv[1:]...)
			var out bytes.Buffer
			cmd.Stdout = &out
			cmd.Stderr = &out
			t0 := time.Now()
			cmd.Run()
			o := out.String()
			st := "unknown"
			switch firstLine(o) {
			case "unsat":
				st = "unsat"
			case "sat":
				st = "sat"
			}
			ch <- solveResult{status: st, solver: sp.name, seconds: time.Since(t0).Seconds(), output: o}
		}()
	}
	var outs []string
	var satRes *solveResult
	for i := 0; i < len(solvers); i++ {
		r := <-ch
		if r.status == "unsat" {
			cancel()
			r.seconds = time.Since(start).Seconds()
			return r
		}
		if r.status == "sat" && satRes == nil {
			rr := r
			satRes = &rr
			// a sat answer from one solver: still let others finish briefly? take it.
			cancel()
			rr.seconds = time.Since(start).Seconds()
			return rr
		}
		outs = append(outs, r.solver+": "+trunc(strings.TrimSpace(r.output), 300))
	}
	return solveResult{status: "unknown", solver: "all", seconds: time.Since(start).Seconds(), output: strings.Join(outs, "\n")}
}

var fileRe = regexp.MustCompile(`[^A-Za-z0-9_.\-]+`)

func sanitizeFile(s string) string {
	s = fileRe.ReplaceAllString(s, "_")
	if len(s) > 150 {
		s = s[:150]
	}
	return s
}

// obligationScript builds the SMT query for an obligation: unsat = discharged.
func (x *Exec) obligationScript(o *Obligation, getValues []*Term) string {
	c := x.c
	var asserts []*Term
	asserts = append(asserts, x.assumps[:o.NAssum]...)
	asserts = append(asserts, o.Guard, c.Not(o.Cond))
	return c.Script(asserts, ScriptOpts{ProduceModels: len(getValues) > 0, GetValues: getValues})
}

// dischargeAll solves all obligations in parallel.
func (x *Exec) dischargeAll(obls []*Obligation, dir string, timeoutS int, par int) {
	os.MkdirAll(dir, 0o755)
	// scripts are generated sequentially (term table is not thread-safe)
	scripts := make([]string, len(obls))
	for i, o := range obls {
		if o.Status == "skipped" {
			continue
		}
		if o.Cond.isTrue() || o.Guard.isFalse() {
			o.Status = "discharged"
			o.Solver = "simplifier"
			continue
		}
		scripts[i] = x.obligationScript(o, nil)
		o.SMTBytes = len(scripts[i])
	}
	sem := make(chan struct{}, par)
	var wg sync.WaitGroup
	for i, o := range obls {
		if o.Status != "" {
			continue
		}
		i, o := i, o
		wg.Add(1)
		sem <- struct{}{}
		go func() {
			defer wg.Done()
			defer func() { <-sem }()
			r := raceSolvers(scripts[i], dir, o.Name, timeoutS)
			o.Solver = r.solver
			o.Seconds = r.seconds
			o.Output = r.output
			switch r.status {
			case "unsat":
				o.Status = "discharged"
			case "sat":
				o.Status = "failed"
			default:
				o.Status = "unknown"
			}
		}()
	}
	wg.Wait()
}

// queryModel re-runs z3 with get-value for the given terms; returns values by index.
func (x *Exec) queryModel(o *Obligation, terms []*Term, dir string, timeoutS int) ([]string, bool) {
	script := x.obligationScript(o, terms)
	file := filepath.Join(dir, sanitizeFile(o.Name)+".model.smt2")
	os.WriteFile(file, []byte(script), 0o644)
	for _, sv := range []string{"z3-new", "z3"} {
		ctx, cancel := context.WithTimeout(context.Background(), time.Duration(timeoutS+5)*time.Second)
		cmd := exec.CommandContext(ctx, sv, fmt.Sprintf("-T:%d", timeoutS), file)
		var out bytes.Buffer
		cmd.Stdout = &out
		cmd.Run()
		cancel()
		o2 := out.String()
		if firstLine(o2) != "sat" {
			continue
		}
		rest := o2[strings.Index(o2, "sat")+3:]
		vals := parseGetValue(rest, len(terms))
		if vals != nil {
			return vals, true
		}
	}
	return nil, false
}

// parseGetValue parses "((t1 v1) (t2 v2) ...)" returning the value texts in order.
func parseGetValue(s string, n int) []string {
	toks := sexpTokens(s)
	pos := 0
	var parse func() any
	parse = func() any {
		if pos >= len(toks) {
			return nil
		}
		t := toks[pos]
		pos++
		if t == "(" {
			var l []any
			for pos < len(toks) && toks[pos] != ")" {
				l = append(l, parse())
			}
			pos++
			return l
		}
		return t
	}
	top, ok := parse().([]any)
	if !ok {
		return nil
	}
	var out []string
	for _, p := range top {
		pair, ok := p.([]any)
		if !ok || len(pair) != 2 {
			return nil
		}
		out = append(out, sexpString(pair[1]))
	}
	if len(out) != n {
		return nil
	}
	return out
}

func sexpTokens(s string) []string {
	var toks []string
	i := 0
	for i < len(s) {
		ch := s[i]
		switch {
		case ch == '(' || ch == ')':
			toks = append(toks, string(ch))
			i++
		case ch == ' ' || ch == '\n' || ch == '\t' || ch == '\r':
			i++
		case ch == '|':
			j := strings.IndexByte(s[i+1:], '|')
			if j < 0 {
				return toks
			}
			toks = append(toks, s[i:i+j+2])
			i += j + 2
		case ch == '"':
			j := strings.IndexByte(s[i+1:], '"')
			if j < 0 {
				return toks
			}
			toks = append(toks, s[i:i+j+2])
			i += j + 2
		default:
			j := i
			for j < len(s) && !strings.ContainsRune("() \n\t\r", rune(s[j])) {
				j++
			}
			toks = append(toks, s[i:j])
			i = j
		}
	}
	return toks
}

func sexpString(v any) string {
	switch t := v.(type) {
	case string:
		return t
	case []any:
		var parts []string
		for _, e := range t {
			parts = append(parts, sexpString(e))
		}
		return "(" + strings.Join(parts, " ") + ")"
	}
	return ""
}

// scalarModel returns the scalar constants (name -> value) of a model of the failed obligation.
func (x *Exec) scalarModel(o *Obligation, dir string, timeoutS int) map[string]string {
	script := x.obligationScript(o, nil)
	script = strings.Replace(script, "(set-logic ALL)", "(set-option :produce-models true)\n(set-logic ALL)", 1) + "(get-model)\n"
	file := filepath.Join(dir, sanitizeFile(o.Name)+".getmodel.smt2")
	os.WriteFile(file, []byte(script), 0o644)
	ctx, cancel := context.WithTimeout(context.Background(), time.Duration(timeoutS+5)*time.Second)
	defer cancel()
	cmd := exec.CommandContext(ctx, "z3-new", fmt.Sprintf("-T:%d", timeoutS), file)
	var out bytes.Buffer
	cmd.Stdout = &out
	cmd.Run()
	s := out.String()
	if firstLine(s) != "sat" {
		return nil
	}
	toks := sexpTokens(s[strings.Index(s, "sat")+3:])
	res := map[string]string{}
	// scan for ( define-fun NAME ( ) SORT VALUE )
	for i := 0; i+4 < len(toks); i++ {
		if toks[i] == "define-fun" && toks[i+2] == "(" && toks[i+3] == ")" {
			name := toks[i+1]
			j := i + 4
			// skip sort
			depth := 0
			for ; j < len(toks); j++ {
				if toks[j] == "(" {
					depth++
				} else if toks[j] == ")" {
					depth--
				}
				if depth == 0 {
					j++
					break
				}
			}
			// value: one token or balanced list
			if j < len(toks) {
				if toks[j] != "(" {
					res[name] = toks[j]
				} else {
					depth = 0
					var parts []string
					for k := j; k < len(toks); k++ {
						parts = append(parts, toks[k])
						if toks[k] == "(" {
							depth++
						} else if toks[k] == ")" {
							depth--
							if depth == 0 {
								break
							}
						}
					}
					v := strings.Join(parts, " ")
					if len(v) < 80 {
						res[name] = v
					}
				}
			}
		}
	}
	return res
}

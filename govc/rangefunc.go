package main

// rangefunc.go: `for k, v := range f(args)` where f has a contract with a `yields LEN ; KEY ; VAL` clause.
//
// go/ssa compiles the loop body into a synthetic yield closure and the loop into one call iterator(yield). The call
// is treated like a cut loop over the abstract sequence the `yields` clause describes:
//
//	init      the `rangefunc N invariant` clauses hold with rangeindex = 0 in the state before the call;
//	step      from an arbitrary state satisfying the invariant at an arbitrary index i in [0, LEN) (everything the
//	          body may write is arbitrary), the body runs once on (KEY(i), VAL(i)); if it asks to continue (yield
//	          returns true) the invariant holds again with rangeindex = i+1;
//	after     the state after the call is either the state in which such an iteration asked to stop (break / return
//	          inside the body), or an arbitrary state satisfying the invariant with rangeindex = LEN.
//
// What is assumed: the iterator calls yield exactly on the LEN pairs of its contract, in order, stops when yield
// returns false, and touches nothing else (its contract is `trusted`).

import (
	"fmt"
	"go/token"
	"go/types"
	"sort"

	"golang.org/x/tools/go/ssa"
)

type iterInfo struct {
	idx      *Term // the arbitrary index the pair (key, val) was evaluated at
	n        *Term // number of pairs
	key, val *Term
}

// rangeFuncOrdinal: 1-based position (in source order) of this range-over-func call among those of the function.
func rangeFuncOrdinal(fn *ssa.Function, site ssa.Instruction) int {
	var calls []ssa.Instruction
	for _, b := range fn.Blocks {
		for _, ins := range b.Instrs {
			call, ok := ins.(*ssa.Call)
			if !ok || len(call.Call.Args) != 1 || call.Call.IsInvoke() {
				continue
			}
			if mc, ok := call.Call.Args[0].(*ssa.MakeClosure); ok {
				if f, ok := mc.Fn.(*ssa.Function); ok && f.Synthetic == "range-over-func yield" {
					calls = append(calls, ins)
				}
			}
		}
	}
	sort.SliceStable(calls, func(i, j int) bool { return calls[i].Pos() < calls[j].Pos() })
	for i, c := range calls {
		if c == site {
			return i + 1
		}
	}
	return 0
}

// closureWriteSet: what one run of the yield closure may write: its captured variables cell by cell where they are
// scalars, everything else by sort (as for ordinary loops).
func (fr *Frame) closureWriteSet(yc *closureInfo) []target {
	x := fr.x
	sorts := map[string]bool{}
	ghosts := map[string]bool{}
	all := false
	var ts []target
	for _, b := range yc.fn.Blocks {
		for _, ins := range b.Instrs {
			if st, ok := ins.(*ssa.Store); ok {
				if fv, ok := st.Addr.(*ssa.FreeVar); ok && x.ti.isLeaf(st.Val.Type()) {
					for i, f := range yc.fn.FreeVars {
						if f == fv && i < len(yc.bindings) {
							ts = append(ts, target{kind: "cell", sort: x.ti.sortOf(st.Val.Type()), addr: yc.bindings[i]})
						}
					}
					continue
				}
			}
			x.instrWrites(fr, ins, sorts, ghosts, &all, 1)
		}
	}
	if all {
		return []target{{kind: "all"}}
	}
	for _, s := range sortedKeys(sorts) {
		ts = append(ts, target{kind: "sort", sort: s})
	}
	for _, g := range sortedKeys(ghosts) {
		ts = append(ts, target{kind: "ghost", name: g})
	}
	return ts
}

// havocCounters: ghost counters declared with an initial value are arbitrary at a cut (as at loop heads).
func (fr *Frame) havocCounters(s *State, tag string) {
	c := fr.x.c
	counters := map[string]bool{}
	for top := fr; top != nil; top = top.parent {
		if top.contract != nil {
			for _, gcl := range top.contract.Ghosts {
				if gcl.Text != "" {
					counters[gcl.Ghost] = true
				}
			}
		}
		if top.top {
			break
		}
	}
	for _, name := range sortedKeys(s.ghost) {
		if v := s.ghost[name]; counters[name] && bvWidth(v.sort) > 0 {
			s.ghost[name] = c.Fresh(tag+"_ghost_"+name, v.sort)
		}
	}
}

func (fr *Frame) rangeFuncCall(s *State, g *Term, it *iterInfo, yc *closureInfo, site ssa.Instruction, pos token.Pos) {
	x := fr.x
	c := x.c
	ord := rangeFuncOrdinal(fr.fn, site)
	var invs []*Clause
	if fr.contract != nil && ord > 0 {
		invs = fr.contract.RangeFuncInv[ord]
	}
	label := func(cl *Clause, i int) string {
		if cl.Label != "" {
			return fmt.Sprintf("rangefunc%d.%s", ord, cl.Label)
		}
		return fmt.Sprintf("rangefunc%d.%d", ord, i+1)
	}
	evalInv := func(cl *Clause, st *State, idx *Term) *Term {
		saved := fr.cbArgTypes
		fr.cbArgTypes = map[string]types.Type{"rangeindex": types.Typ[types.Int]}
		defer func() { fr.cbArgTypes = saved }()
		return fr.evalClauseAt(cl, st, nil, map[string]*Term{"rangeindex": idx})
	}
	x.note(fmt.Sprintf("range-over-func loop %d of %s cut at its invariant; the iterator is assumed to yield exactly the pairs of its `yields` contract, in order", ord, shortKey(fr.key)))
	zero := c.BV(0, 64)
	x.assume(g, c.And(c.BVCmp("bvsle", zero, it.n), c.BVCmp("bvsle", it.n, c.BV(1<<56, 64))))
	// 1. init
	for i, inv := range invs {
		fr.oblige("invariant-init", label(inv, i), inv.Pos, g, evalInv(inv, s, zero), inv.Text)
	}
	pre := s.clone()
	targets := fr.closureWriteSet(yc)
	// the compiler's state variable of the loop (first captured variable, jump$N): 0 = ready for the next pair
	jumpReady := func(st *State, guard *Term) {
		if len(yc.fn.FreeVars) > 0 && len(yc.bindings) > 0 {
			if pt, ok := yc.fn.FreeVars[0].Type().Underlying().(*types.Pointer); ok {
				if b, ok := pt.Elem().Underlying().(*types.Basic); ok && b.Kind() == types.Int {
					x.assume(guard, c.Eq(x.load(st, yc.bindings[0], pt.Elem()), zero))
				}
			}
		}
	}
	// 2. an arbitrary iteration
	brk := c.Fresh("rf_stop", SBool)
	gi := c.And(g, brk)
	si := s.clone()
	fr.havocTargets(si, pre, targets, gi)
	fr.havocCounters(si, "rf")
	x.bindHavocBound(si.alloc)
	x.assume(gi, c.And(c.BVCmp("bvsle", zero, it.idx), c.BVCmp("bvslt", it.idx, it.n)))
	for _, inv := range invs {
		x.assume(gi, evalInv(inv, si, it.idx))
	}
	jumpReady(si, gi)
	r := fr.inlineCall(si, gi, yc.fn, []*Term{it.key, it.val}, yc.bindings, false)
	if r == nil || r.sort != SBool {
		cfail("%s: range-over-func yield function does not return a bool", x.P.posStr(pos))
	}
	next := c.BVBin("bvadd", it.idx, c.BV(1, 64))
	for i, inv := range invs {
		fr.oblige("invariant-preserve", label(inv, i), inv.Pos, c.And(gi, r), evalInv(inv, si, next), inv.Text)
	}
	// 3. the sequence is exhausted
	ge := c.And(g, c.Not(brk))
	se := s.clone()
	fr.havocTargets(se, pre, targets, ge)
	fr.havocCounters(se, "rfend")
	x.bindHavocBound(se.alloc)
	for _, inv := range invs {
		x.assume(ge, evalInv(inv, se, it.n))
	}
	jumpReady(se, ge)
	// 4. after the call: the stopping iteration's state, or the exhausted state
	x.assume(gi, c.Not(r))
	res, _ := x.mergeStates([]*uedge{{st: se, guard: ge}, {st: si, guard: gi}})
	s.mem, s.ep, s.alloc, s.ghost = res.mem, res.ep, res.alloc, res.ghost
}

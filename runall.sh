#!/bin/bash
# runall.sh [out] : run every registered quick check on /repo's working tree; one summary line per check
cd "$(dirname "$0")"
OUT=${1:-/dev/stdout}
for p in $(python3 -c "import json;print(' '.join(sorted(set(x['property_id'] for x in json.load(open('MANIFEST.json'))['checks']))))"); do
  ./check $p 2>&1 | grep -E "^(PASS|FAIL|ERROR|VIOLATION|KNOWN)" | cut -c1-220
done > $OUT 2>&1

#!/bin/bash
# selftest/run.sh [prop...] : must-fail corpus (every mutant must raise a VIOLATION for its property)
# and must-pass corpus (semantics-preserving refactors must stay silent). Scratch copies live under /tmp and are removed.
cd "$(dirname "$0")/.."; . ./env.sh
HERE=$(pwd)
PROPS="$@"; [ -z "$PROPS" ] && PROPS=$(ls selftest/mutants selftest/refactors 2>/dev/null | grep '^C' | sort -u)
FAILS=0
for P in $PROPS; do
  for KIND in mutants refactors; do
    for PATCH in selftest/$KIND/$P/*.patch; do
      [ -f "$PATCH" ] || continue
      S=$(mktemp -d /tmp/selftest.XXXXXX); rsync -a --exclude .git ${VERIF_REPO:-/repo}/ $S/
      if ! (cd $S && patch -s -p1 < $HERE/$PATCH); then echo "SELFTEST-ERROR $P $PATCH does not apply"; FAILS=$((FAILS+1)); rm -rf $S; continue; fi
      R=$(mktemp -d /tmp/selftest-replays.XXXXXX); OUT=$(./bin/govc -repo $S -prop $P -tier quick -timeout ${SELFTEST_TIMEOUT:-30} -known known_findings.json -replays $R -noreplay 2>&1); RC=$?
      rm -rf $S $R
      if [ $KIND = mutants ]; then
        if [ $RC -eq 1 ] && echo "$OUT" | grep -q "^VIOLATION property=$P"; then echo "ok   caught  $P $(basename $PATCH .patch): $(echo "$OUT" | grep -c '^VIOLATION') obligation(s), first: $(echo "$OUT" | grep -m1 '^VIOLATION' | sed 's/.*obligation=\([^ ]*\).*/\1/')"
        else echo "MISS         $P $(basename $PATCH .patch) (rc=$RC) $(echo "$OUT" | tail -1)"; FAILS=$((FAILS+1)); fi
      else
        if [ $RC -eq 0 ]; then echo "ok   silent  $P $(basename $PATCH .patch)"; else echo "FALSE-ALARM  $P $(basename $PATCH .patch) (rc=$RC) $(echo "$OUT" | grep -m2 -E 'VIOLATION|ERROR')"; FAILS=$((FAILS+1)); fi
      fi
    done
  done
done
echo "selftest: $FAILS problem(s)"; [ $FAILS -eq 0 ]

#!/bin/bash
# selftest/mkmut.sh <kind: mutants|refactors> <prop> <name> <file> <sed-expr> : create a patch file from a sed edit of /repo/<file>
set -e
KIND=$1; PROP=$2; NAME=$3; FILE=$4; EXPR=$5
D=$(mktemp -d); mkdir -p $D/a/$(dirname $FILE) $D/b/$(dirname $FILE)
cp /repo/$FILE $D/a/$FILE; cp /repo/$FILE $D/b/$FILE; sed -i "$EXPR" $D/b/$FILE
if cmp -s $D/a/$FILE $D/b/$FILE; then echo "sed expression changed nothing: $NAME"; rm -rf $D; exit 1; fi
mkdir -p /verif/selftest/$KIND/$PROP
(cd $D && diff -u a/$FILE b/$FILE > /verif/selftest/$KIND/$PROP/$NAME.patch || true)
rm -rf $D; echo "wrote selftest/$KIND/$PROP/$NAME.patch"

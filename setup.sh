#!/bin/bash
# Build govc offline and warm the export-data cache for the packages under contract.
set -e
cd "$(dirname "$0")"
. ./env.sh
mkdir -p bin evidence replays
(cd govc && go build -o ../bin/govc .)
# warm: compile export data for the repo with the verif tag (ignore failures; checks report them)
(cd "${VERIF_REPO:-/repo}" && go build -tags verif ./... >/dev/null 2>&1 || true)
echo "setup ok: $(./bin/govc -h 2>&1 | head -1 >/dev/null; ls -la bin/govc | awk '{print $5}') bytes"

package overlay

// Demonstrations for the C41 findings (before fix). Copy into /repo/overlay as *_test.go and run
// `go test -run TestFindingC41 ./overlay/`.

import (
	"net/netip"
	"testing"

	"github.com/slackhq/nebula/config"
	"github.com/slackhq/nebula/routing"
	"github.com/slackhq/nebula/test"
	"github.com/stretchr/testify/assert"
	"github.com/stretchr/testify/require"
)

func c41conf(t *testing.T, route map[string]any) *config.C {
	c := config.NewC(test.NewLogger())
	c.Settings["tun"] = map[string]any{"unsafe_routes": []any{route}}
	return c
}

var c41nets = []netip.Prefix{netip.MustParsePrefix("10.0.0.0/24")}

// A metric given as a decimal string must take exactly the stated value.
func TestFindingC41_StringMetricTakesItsValue(t *testing.T) {
	c := c41conf(t, map[string]any{"via": "10.0.0.2", "route": "192.168.0.0/24", "metric": "100"})
	routes, err := parseUnsafeRoutes(c, c41nets)
	require.NoError(t, err)
	require.Len(t, routes, 1)
	assert.Equal(t, 100, routes[0].Metric, "metric \"100\" was accepted but its value was discarded")
}

// A gateway weight given as a decimal string must take exactly the stated value.
func TestFindingC41_StringWeightTakesItsValue(t *testing.T) {
	c := c41conf(t, map[string]any{"route": "192.168.0.0/24", "via": []any{
		map[string]any{"gateway": "10.0.0.2", "weight": "5"},
	}})
	routes, err := parseUnsafeRoutes(c, c41nets)
	require.NoError(t, err, "weight \"5\" is a valid decimal string")
	require.Len(t, routes, 1)
	assert.Equal(t, routing.NewGateway(netip.MustParseAddr("10.0.0.2"), 5), routes[0].Via[0])
}

// A numeric field of another YAML type must be refused with an error, not crash the loader.
func TestFindingC41_OtherYamlTypesAreRefusedNotPanics(t *testing.T) {
	for _, field := range []string{"mtu", "metric"} {
		c := c41conf(t, map[string]any{"via": "10.0.0.2", "route": "192.168.0.0/24", field: 1.5})
		assert.NotPanics(t, func() {
			_, err := parseUnsafeRoutes(c, c41nets)
			assert.Error(t, err)
		}, field)
	}
	c := c41conf(t, map[string]any{"route": "192.168.0.0/24", "via": []any{map[string]any{"gateway": "10.0.0.2", "weight": true}}})
	assert.NotPanics(t, func() {
		_, err := parseUnsafeRoutes(c, c41nets)
		assert.Error(t, err)
	}, "weight")
	c2 := config.NewC(test.NewLogger())
	c2.Settings["tun"] = map[string]any{"routes": []any{map[string]any{"route": "10.0.0.0/25", "mtu": []any{1}}}}
	assert.NotPanics(t, func() {
		_, err := parseRoutes(c2, c41nets)
		assert.Error(t, err)
	}, "routes mtu")
}

//go:build verif

// Demonstration of the C11 defect found by failed obligations
// nebula.(*Bits).Update#ensures[verdict], #ensures[current] and
// nebula.(*Bits).updateSlow#ensures[rep]: near 2^64 the additions
// b.current+1 and b.current+b.length wrap around.
// Run: cd /repo && go test -tags verif -overlay <ov.json mapping /repo/zz_finding_test.go to this file> -run TestFindingC11 .
package nebula

import (
	"log/slog"
	"math"
	"testing"
)

func TestFindingC11_FastPathWrap(t *testing.T) {
	l := slog.New(slog.DiscardHandler)
	b := NewBits(16)
	if !b.Update(l, math.MaxUint64) {
		t.Fatal("setup: highest counter must be accepted")
	}
	// counter 0 is never valid and is below the window of MaxUint64
	if b.Check(l, 0) {
		t.Fatal("Check(0) must reject")
	}
	if b.Update(l, 0) {
		t.Fatalf("DEFECT: Update(0) accepted after MaxUint64 (current is now %d): the window restarts and every old counter is accepted again", b.current)
	}
}

func TestFindingC11_JumpWipesWindow(t *testing.T) {
	l := slog.New(slog.DiscardHandler)
	b := NewBits(16)
	cur := uint64(math.MaxUint64 - 10)
	if !b.Update(l, cur-1) || !b.Update(l, cur) {
		t.Fatal("setup")
	}
	// a small jump of 5: cur-1 stays inside the 16-wide window and was accepted before
	if !b.Update(l, cur+5) {
		t.Fatal("jump must be accepted")
	}
	if b.Update(l, cur-1) {
		t.Fatal("DEFECT: counter accepted twice: b.current+b.length wrapped, clearRange wiped the whole window")
	}
}

package nebula

// Demonstrations for the C42 known findings: certificate reloads that change the node's overlay networks or
// curve and are accepted. Copy into /repo as *_test.go and run `go test -run TestFindingC42 .`

import (
	"net/netip"
	"testing"
	"time"

	"github.com/slackhq/nebula/cert"
	"github.com/slackhq/nebula/cert_test"
	"github.com/slackhq/nebula/config"
	"github.com/slackhq/nebula/test"
	"github.com/stretchr/testify/assert"
	"github.com/stretchr/testify/require"
)

func c42conf(certPEM, keyPEM []byte) *config.C {
	c := config.NewC(test.NewLogger())
	c.Settings["pki"] = map[string]any{"cert": string(certPEM), "key": string(keyPEM)}
	return c
}

func c42pki(t *testing.T, certPEM, keyPEM []byte) *PKI {
	p := &PKI{l: test.NewLogger()}
	cs, err := newCertStateFromConfig(c42conf(certPEM, keyPEM), "aes")
	require.NoError(t, err)
	p.cs.Store(cs)
	return p
}

func c42nets(s ...string) []netip.Prefix {
	var out []netip.Prefix
	for _, x := range s {
		out = append(out, netip.MustParsePrefix(x))
	}
	return out
}

// v1-only -> v2-only with other networks and another curve: nothing is compared.
func TestFindingC42_V1ToV2OnlyChangesNetworksAndCurve(t *testing.T) {
	ca1, _, ca1key, _ := cert_test.NewTestCaCert(cert.Version1, cert.Curve_CURVE25519, time.Time{}, time.Time{}, nil, nil, nil)
	ca2, _, ca2key, _ := cert_test.NewTestCaCert(cert.Version2, cert.Curve_P256, time.Time{}, time.Time{}, nil, nil, nil)
	_, _, k1, c1 := cert_test.NewTestCert(cert.Version1, cert.Curve_CURVE25519, ca1, ca1key, "n", time.Time{}, time.Time{}, c42nets("10.0.0.1/24"), nil, nil)
	_, _, k2, c2 := cert_test.NewTestCert(cert.Version2, cert.Curve_P256, ca2, ca2key, "n", time.Time{}, time.Time{}, c42nets("192.168.5.1/24"), nil, nil)
	p := c42pki(t, c1, k1)
	before := p.getCertState().myVpnNetworks
	err := p.reloadCerts(c42conf(c2, k2), false)
	assert.NotNil(t, err, "C42: a reload that changes the overlay networks (%v -> %v) and the curve was accepted", before, p.getCertState().myVpnNetworks)
	assert.Equal(t, before, p.getCertState().myVpnNetworks)
}

// v1-only -> v1 + v2 where the v2 certificate carries an additional network: only the first network is compared.
func TestFindingC42_AddingV2WithExtraNetworkChangesNetworks(t *testing.T) {
	ca1, _, ca1key, _ := cert_test.NewTestCaCert(cert.Version1, cert.Curve_CURVE25519, time.Time{}, time.Time{}, nil, nil, nil)
	ca2, _, ca2key, _ := cert_test.NewTestCaCert(cert.Version2, cert.Curve_CURVE25519, time.Time{}, time.Time{}, nil, nil, nil)
	v1, pub, k1, c1 := cert_test.NewTestCert(cert.Version1, cert.Curve_CURVE25519, ca1, ca1key, "n", time.Time{}, time.Time{}, c42nets("10.0.0.1/24"), nil, nil)
	tbs := &cert.TBSCertificate{Version: cert.Version2, Curve: cert.Curve_CURVE25519, Name: "n", Networks: c42nets("10.0.0.1/24", "10.9.9.1/24"),
		NotBefore: v1.NotBefore(), NotAfter: v1.NotAfter(), PublicKey: pub}
	v2, err := tbs.Sign(ca2, ca2.Curve(), ca2key)
	require.NoError(t, err)
	c2, err := v2.MarshalPEM()
	require.NoError(t, err)
	p := c42pki(t, c1, k1)
	before := p.getCertState().myVpnNetworks
	rerr := p.reloadCerts(c42conf(append(append([]byte{}, c1...), c2...), k1), false)
	assert.NotNil(t, rerr, "C42: a reload that changes the overlay networks (%v -> %v) was accepted", before, p.getCertState().myVpnNetworks)
	assert.Equal(t, before, p.getCertState().myVpnNetworks)
}

// v2-only -> v1-only with the same networks but another curve: the curve is not compared.
func TestFindingC42_V2ToV1OnlyChangesCurve(t *testing.T) {
	ca1, _, ca1key, _ := cert_test.NewTestCaCert(cert.Version1, cert.Curve_P256, time.Time{}, time.Time{}, nil, nil, nil)
	ca2, _, ca2key, _ := cert_test.NewTestCaCert(cert.Version2, cert.Curve_CURVE25519, time.Time{}, time.Time{}, nil, nil, nil)
	_, _, k2, c2 := cert_test.NewTestCert(cert.Version2, cert.Curve_CURVE25519, ca2, ca2key, "n", time.Time{}, time.Time{}, c42nets("10.0.0.1/24"), nil, nil)
	_, _, k1, c1 := cert_test.NewTestCert(cert.Version1, cert.Curve_P256, ca1, ca1key, "n", time.Time{}, time.Time{}, c42nets("10.0.0.1/24"), nil, nil)
	p := c42pki(t, c2, k2)
	before := p.getCertState().GetDefaultCertificate().Curve()
	err := p.reloadCerts(c42conf(c1, k1), false)
	assert.NotNil(t, err, "C42: a reload that changes the curve (%v -> %v) was accepted", before, p.getCertState().GetDefaultCertificate().Curve())
	assert.Equal(t, before, p.getCertState().GetDefaultCertificate().Curve())
}

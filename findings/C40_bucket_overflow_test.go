//go:build verif

// Demonstration of the C40 defect found by the failed obligation
// routing.CalculateBucketsForGateways#requires[routing.verifLemmaRoundExact.1]:
// uint64(loopWeight)<<31 wraps once the running weight reaches 2^33.
package routing

import (
	"math"
	"net/netip"
	"testing"

	"github.com/slackhq/nebula/firewall"
)

func TestFindingC40_HeavyGateways(t *testing.T) {
	var gs []Gateway
	for i := 0; i < 5; i++ {
		gs = append(gs, NewGateway(netip.AddrFrom4([4]byte{10, 0, 0, byte(i + 1)}), math.MaxInt32))
	}
	CalculateBucketsForGateways(gs)
	for i := range gs {
		t.Logf("gateway %d upper bound %d", i, gs[i].bucketUpperBound)
	}
	if gs[4].bucketUpperBound != math.MaxInt32 {
		t.Errorf("DEFECT: last bucket bound is %d, want %d (hash space not covered)", gs[4].bucketUpperBound, math.MaxInt32)
	}
	for i := 0; i+1 < len(gs); i++ {
		if gs[i].bucketUpperBound > gs[i+1].bucketUpperBound {
			t.Errorf("DEFECT: bounds decrease at %d: %d > %d", i, gs[i].bucketUpperBound, gs[i+1].bucketUpperBound)
		}
	}
	// every flow must find a gateway
	p := &firewall.Packet{LocalPort: 65535, RemotePort: 1}
	if _, ok := BalancePacket(p, gs); !ok {
		t.Errorf("DEFECT: BalancePacket reports uncalculated buckets for a legal configuration")
	}
}

//go:build verif

// Demonstration of the C18 defect found by the failed obligation
// nebula.(*Firewall).inConns#ensures[fresh@return4]: a tracked flow that has
// been idle for much longer than its timeout is still honoured, because
// inConns never looks at conn.Expires and the timer wheel only advances when
// some *other* flow is added or evicted.
package nebula

import (
	"bytes"
	"net/netip"
	"testing"
	"time"

	"github.com/slackhq/nebula/cert"
	"github.com/slackhq/nebula/firewall"
	"github.com/slackhq/nebula/test"
)

func TestFindingC18_IdleFlowStillHonoured(t *testing.T) {
	l := test.NewLoggerWithOutput(&bytes.Buffer{})
	c := dummyCert{name: "host1", networks: []netip.Prefix{netip.MustParsePrefix("1.2.3.4/24")}}
	fw := NewFirewall(l, 20*time.Millisecond, 20*time.Millisecond, 20*time.Millisecond, &c)
	h := &HostInfo{ConnectionState: &ConnectionState{peerCert: &cert.CachedCertificate{Certificate: &c}}}
	p := firewall.Packet{LocalAddr: netip.MustParseAddr("1.2.3.4"), RemoteAddr: netip.MustParseAddr("1.2.3.5"), LocalPort: 10, RemotePort: 90, Protocol: firewall.ProtoUDP}

	fw.addConn(p, true) // an allowed packet created the flow; no rule allows anything else
	if !fw.inConns(p, h, cert.NewCAPool(), nil) {
		t.Fatal("setup: fresh flow must be honoured")
	}
	time.Sleep(200 * time.Millisecond) // idle for 10x the configured timeout (inConns re-armed it to now+20ms)
	if fw.inConns(p, h, cert.NewCAPool(), nil) {
		t.Fatal("DEFECT: flow idle for 10x its timeout is still honoured")
	}
}

package nebula

// Demonstration for the C14 known finding: an unauthenticated recv_error packet tears a tunnel down.
// Run: cp this file into /repo (any name ending in _test.go) and `go test -run TestFindingC14 .`
//
// The packet below is 16 bytes of cleartext header (type RecvError, the tunnel's remote index). Nothing in it is
// produced with a key; anyone who can send from (or spoof) the tunnel's current underlay address can build it.
// With listen.accept_recv_error at its default ("always") readOutsidePackets -> handleRecvError -> closeTunnel.

import (
	"net/netip"
	"testing"

	"github.com/slackhq/nebula/cert"
	"github.com/slackhq/nebula/firewall"
	"github.com/slackhq/nebula/header"
	"github.com/slackhq/nebula/overlay/overlaytest"
	"github.com/slackhq/nebula/test"
	"github.com/slackhq/nebula/udp"
	"github.com/stretchr/testify/assert"
)

func TestFindingC14_UnauthenticatedRecvErrorClosesTunnel(t *testing.T) {
	_ = firewall.Packet{}
	l := test.NewLogger()
	hostMap := newHostMap(l)
	lh := newTestLighthouse()
	ifce := &Interface{
		hostMap:               hostMap,
		inside:                &overlaytest.NoopTun{},
		outside:               &udp.NoopConn{},
		firewall:              &Firewall{},
		lightHouse:            lh,
		pki:                   &PKI{},
		handshakeManager:      NewHandshakeManager(l, hostMap, lh, &udp.NoopConn{}, defaultHandshakeConfig),
		l:                     l,
		acceptRecvErrorConfig: recvErrorAlways, // the default of listen.accept_recv_error
	}
	peer := netip.MustParseAddrPort("192.0.2.7:4242")
	hostinfo := &HostInfo{
		vpnAddrs:      []netip.Addr{netip.MustParseAddr("172.1.1.2")},
		localIndexId:  1099,
		remoteIndexId: 9901,
	}
	hostinfo.ConnectionState = &ConnectionState{myCert: &dummyCert{version: cert.Version1}}
	hostinfo.remote.Store(&peer)
	hostMap.unlockedAddHostInfo(hostinfo, ifce)
	assert.Contains(t, hostMap.Indexes, hostinfo.localIndexId)

	// a bare recv_error header naming the tunnel, sent from the tunnel's underlay address: no key involved
	pkt := header.Encode(make([]byte, header.Len), header.Version, header.RecvError, 0, hostinfo.remoteIndexId, 0)
	h := &header.H{}
	assert.NoError(t, h.Parse(pkt))
	ifce.handleRecvError(peer, h)

	_, still := hostMap.Indexes[hostinfo.localIndexId]
	assert.True(t, still, "C14: the tunnel was torn down by an unauthenticated recv_error packet")
}

package handshake

// Demonstration for the C07 known finding. Copy into /repo/handshake as *_test.go (it uses the package's own test
// helpers) and run `go test -run TestFindingC07 ./handshake/`.
//
// The initiator's Machine receives a cut-off copy of the responder's genuine stage-2 message: the 16-byte header and
// the 32-byte ephemeral key, then nothing. flynn/noise reads the ephemeral key, mixes it into the handshake hash
// (and, after the ee DH, into the chaining key) and only then finds the message too short for the static key: it
// returns ErrShortMessage WITHOUT rolling the symmetric state back. ProcessPacket reports the error with
// Failed() == false ("the Machine can accept another packet"), but the genuine message that follows is then rejected.

import (
	"net/netip"
	"testing"
	"time"

	"github.com/slackhq/nebula/cert"
	ct "github.com/slackhq/nebula/cert_test"
	"github.com/slackhq/nebula/header"
	"github.com/stretchr/testify/assert"
	"github.com/stretchr/testify/require"
)

func TestFindingC07_TruncatedMessageWedgesUsableMachine(t *testing.T) {
	ca, _, caKey, _ := ct.NewTestCaCert(cert.Version2, cert.Curve_CURVE25519, time.Now().Add(-time.Hour), time.Now().Add(time.Hour), nil, nil, nil)
	pool := cert.NewCAPool()
	require.NoError(t, pool.AddCA(ca))
	v := testVerifier(pool)
	initCS := newTestCertState(t, ca, caKey, "init", []netip.Prefix{netip.MustParsePrefix("10.0.0.1/24")})
	respCS := newTestCertState(t, ca, caKey, "resp", []netip.Prefix{netip.MustParsePrefix("10.0.0.2/24")})

	initM := newTestMachine(t, initCS, v, true, 1000)
	respM := newTestMachine(t, respCS, v, false, 2000)
	msg1, err := initM.Initiate(nil)
	require.NoError(t, err)
	resp, _, err := respM.ProcessPacket(nil, msg1)
	require.NoError(t, err)

	// the genuine stage-2 message, cut after header + ephemeral key (e.g. a truncated datagram, or an attacker's prefix)
	cut := append([]byte{}, resp[:header.Len+32]...)
	_, res, err := initM.ProcessPacket(nil, cut)
	require.Error(t, err)
	require.Nil(t, res)
	require.False(t, initM.Failed(), "the Machine says it is still usable after rejecting the cut message")

	// the genuine message delivered afterwards must complete the handshake as if the cut one had never arrived
	_, res, err = initM.ProcessPacket(nil, resp)
	assert.NoError(t, err, "C07: the genuine message is rejected after a rejected (cut) message left the Machine 'usable'")
	assert.NotNil(t, res)
}

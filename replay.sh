#!/bin/bash
# ./replay.sh <replay file>: run a counterexample replay against the real code (nothing is written to the repo).
cd "$(dirname "$0")"; . ./env.sh
F="$(readlink -f "$1")"; REPO="${VERIF_REPO:-/repo}"
case "$F" in
  *_test.go) ;;
  *) echo "replay artefact without a runnable test (no failing input was found); contents:"; cat "$F"; exit 1;;
esac
PKG=$(sed -n 's#^// verif-replay-pkg: ##p' "$F"); T=$(sed -n 's#^// verif-replay-test: ##p' "$F")
TMP=$(mktemp -d); trap 'rm -rf $TMP' EXIT
printf '{"Replace":{"%s/%s/zz_verif_replay_test.go":"%s"}}' "$REPO" "${PKG#./}" "$F" > $TMP/ov.json
cd "$REPO" && (ulimit -v 8000000; go test -tags verif -overlay $TMP/ov.json -vet=off -count=1 -timeout 60s -run "^$T\$" -v "$PKG") | tee $TMP/out
grep -q VERIF-REPLAY-VIOLATED $TMP/out && exit 1 || exit 0

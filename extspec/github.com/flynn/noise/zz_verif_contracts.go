//go:build verif

// Contract file for the dependency github.com/flynn/noise (v1.1.0, as pinned by
// /repo/go.mod), added to the package through a go/packages overlay by
// /verif/govc: the module cache is not written to and nothing here is part of
// /repo. Only what property C07 needs is stated.

package noise

// ---- contract vocabulary (evaluated symbolically by govc, never executed) ----

// (the module declares go 1.16: no generic helpers here)
func implies(a, b bool) bool { return !a || b }

func elems(s []byte, r ...int) bool { return true }

// =====================================================================
// C07 — a rejected handshake message never wedges the handshake
// =====================================================================
//
// nebula's handshake machine (handshake/machine.go, ProcessPacket) relies on
// this claim about ReadMessage: "The noise library checkpoints and rolls back
// on failure, so the Machine is still alive. The caller can retry with a
// different packet." Stated as a contract: whenever ReadMessage returns an
// error after it has mixed anything into the symmetric state (handshake hash
// or chaining key), it has rolled the symmetric state back. `mixed` counts the
// state-changing calls (MixHash, MixKey, MixKeyAndHash, DecryptAndHash),
// `rolled` the calls of Rollback; both are effect counters incremented by the
// assumed contracts of those small functions (state.go lines 144-226).

//@ func (*symmetricState).Checkpoint
//@   trusted saves chaining key and handshake hash (copies into prevCK / prevH)
//@   assigns nothing
//@ func (*symmetricState).Rollback
//@   trusted restores chaining key and handshake hash from the last checkpoint
//@   effect rolled
//@   assigns nothing
//@ func (*symmetricState).MixHash
//@   trusted replaces the handshake hash by H(h || data)
//@   effect mixed
//@   assigns nothing
//@ func (*symmetricState).MixKey
//@   trusted replaces chaining key and cipher key by HKDF(ck, dh output)
//@   effect mixed
//@   assigns nothing
//@ func (*symmetricState).MixKeyAndHash
//@   trusted replaces chaining key, handshake hash and cipher key
//@   effect mixed
//@   assigns nothing
//@ func (*symmetricState).DecryptAndHash
//@   trusted decrypts under the current key and, on success, mixes the ciphertext into the handshake hash; on failure it may have advanced the nonce
//@   effect mixed
//@   assigns nothing
//@ func (*symmetricState).Split
//@   trusted derives the two transport cipher states
//@   assigns nothing
//@ func (CipherSuite).DHLen
//@   trusted size of a public key for this curve
//@   ensures 0 < result && result <= 1024 && result == self.DHLen()
//@   assigns nothing
//@ func (CipherSuite).DH
//@   trusted Diffie-Hellman; errors for invalid or low-order public keys
//@   assigns nothing

// What callers in nebula (handshake.Machine.ProcessPacket) may assume about a call: it touches only the handshake
// state's own memory, and `readok` counts the calls that returned without error. That it leaves that state as it
// was when it fails is NOT assumed: it is the clause ensures[rollback] of the `impl` view below, checked against
// the source.
//@ func (*HandshakeState).ReadMessage
//@   trusted frame abstraction for callers: writes only the HandshakeState's own fields and buffers
//@   effect readok if result3 == nil
//@   assigns nothing

//@ func (*HandshakeState).ReadMessage impl
//@   props C07
//@   ghost mixed int = 0
//@   ghost rolled int = 0
//@   requires s != nil && s.ss.cs != nil && s.msgIdx >= 0
//@   requires[patterns] implies(s.msgIdx < len(s.messagePatterns), len(s.messagePatterns[s.msgIdx]) <= 1<<20)
//@   ensures[rollback] implies(result3 != nil, mixed == 0 || rolled >= 1)
//@   loop 1 invariant rolled == 0 && 0 <= mixed && mixed <= 4*rangeindex && 0 <= rangeindex && rangeindex <= 1<<20 && s.ss.cs != nil

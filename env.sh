# sourced by every script: offline Go toolchain for building govc and loading /repo
export PATH=/opt/veriftools/go1.26.8/bin:$PATH
export GOFLAGS=-mod=mod GOPROXY=off GOSUMDB=off GOTOOLCHAIN=local
export GOCACHE=${GOCACHE:-/root/.cache/go-build}

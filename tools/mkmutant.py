#!/usr/bin/env python3
"""mkmutant.py <prop> <name> <file> <<< "OLD\n====\nNEW"
Creates selftest/mutants/<prop>/<name>.patch by replacing the (unique) OLD text of /repo/<file> with NEW
in a scratch copy of that file and diffing; checks the result compiles (go build, go vet off)."""
import sys, subprocess, os, tempfile, shutil
prop, name, f = sys.argv[1:4]
kind = sys.argv[4] if len(sys.argv) > 4 else "mutants"
txt = sys.stdin.read()
old, new = txt.split("\n====\n")
old = old.strip("\n"); new = new.strip("\n")
src = open("/repo/" + f).read()
if src.count(old) != 1:
    sys.exit("OLD occurs %d times in %s" % (src.count(old), f))
d = tempfile.mkdtemp(prefix="mkmut.", dir="/tmp")
try:
    os.makedirs(os.path.join(d, "a", os.path.dirname(f)), exist_ok=True)
    os.makedirs(os.path.join(d, "b", os.path.dirname(f)), exist_ok=True)
    open(os.path.join(d, "a", f), "w").write(src)
    open(os.path.join(d, "b", f), "w").write(src.replace(old, new))
    r = subprocess.run(["diff", "-u", "a/" + f, "b/" + f], cwd=d, capture_output=True, text=True)
    out = "/verif/selftest/%s/%s/%s.patch" % (kind, prop, name)
    os.makedirs(os.path.dirname(out), exist_ok=True)
    open(out, "w").write(r.stdout)
    # compile check in a scratch copy
    s = tempfile.mkdtemp(prefix="mkmutb.", dir="/tmp")
    subprocess.run(["rsync", "-a", "--exclude", ".git", "/repo/", s + "/"], check=True)
    subprocess.run(["patch", "-s", "-p1", "-i", out], cwd=s, check=True)
    pk = "./" + (os.path.dirname(f) or ".")
    env = dict(os.environ, GOFLAGS="-mod=mod", GOPROXY="off", GOSUMDB="off")
    b = subprocess.run(["go", "build", pk], cwd=s, capture_output=True, text=True, env=env)
    shutil.rmtree(s)
    if b.returncode != 0:
        os.remove(out)
        sys.exit("does not compile:\n" + b.stderr[-800:])
    print("wrote", out)
finally:
    shutil.rmtree(d)

#!/usr/bin/env python3
"""unsatcore.py FILE.smt2 : name every top-level assert, ask z3 for an unsat core, print the core assertions (expanded one level)."""
import re, subprocess, sys
txt = open(sys.argv[1]).read()
lines = txt.split('\n')
out, names = [], {}
n = 0
for l in lines:
    if l.startswith('(assert '):
        n += 1
        nm = f"a{n}"
        names[nm] = l
        out.append(f"(assert (! {l[8:-1]} :named {nm}))")
    elif l.startswith('(check-sat') or l.startswith('(get-') or l.startswith('(exit'):
        continue
    else:
        out.append(l)
out.insert(0, "(set-option :produce-unsat-cores true)")
out.append("(check-sat)")
out.append("(get-unsat-core)")
open('/tmp/_core.smt2', 'w').write('\n'.join(out))
r = subprocess.run(['z3-new', '-T:120', '/tmp/_core.smt2'], capture_output=True, text=True).stdout
print(r.split('\n')[0])
defs = dict(re.findall(r'\(define-fun (\$t\d+) \(\) \S+(?: \S+)*? (.*)\)\n', txt))
def expand(t, d=0):
    for k in set(re.findall(r'\$t\d+', t)):
        if d < 2 and k in defs:
            t = t.replace(k, '[' + expand(defs[k], d + 1) + ']')
    return t
for nm in re.findall(r'a\d+', r.split('\n', 1)[1] if '\n' in r else ''):
    print('--', names[nm][:300])
    print('     ', expand(names[nm])[:700])

#!/usr/bin/env python3
"""Regenerate MANIFEST.json from props_meta.json (one entry per property: claimed or not applicable)."""
import json, os
here = os.path.dirname(os.path.abspath(__file__))
meta = json.load(open(os.path.join(here, "props_meta.json")))
import glob
for f in sorted(glob.glob(os.path.join(here, "meta", "C*.json"))):
    meta[os.path.basename(f)[:-5]] = json.load(open(f))
ids = [json.loads(l)["id"] for l in open(os.path.join(here, "properties.jsonl")) if l.strip()]
checks, na = [], []
for pid in ids:
    m = meta.get(pid)
    if m is None:
        na.append({"property_id": pid, "reason": "within reach of contract-based verification per DESIGN.md (byte-level codecs, offload segmentation/coalescing, batch sends, list ordering, CPU pinning), but the contracts were not built in the time available: not claimed, nothing is reported"})
        continue
    if "not_applicable" in m:
        na.append({"property_id": pid, "reason": m["not_applicable"]})
        continue
    checks.append({
        "property_id": pid,
        "quick_cmd": f"./check {pid} --tier quick",
        "thorough_cmd": f"./check {pid} --tier thorough",
        "evidence_file": f"/verif/evidence/{pid}.json",
        "replay_cmd_template": f"./check {pid} --replay {{path}}",
        "engine": "govc",
        "level_claimed": {"category": m.get("category", "proof"), "text": m["text"], "design_ref": m.get("design_ref", "DESIGN.md §4 " + pid)},
        "level_note": m["note"],
        "technique": m.get("technique", "contract-based deductive verification: requires/ensures/loop invariants on the real Go functions, weakest-precondition style VCs over go/ssa, discharged by z3/cvc5"),
    })
man = {
    "version": 1,
    "setup_cmd": "./setup.sh",
    "hooks": {
        "guard": "verif",
        "enable": "go build tag: -tags verif (contract files /repo/**/zz_verif_contracts.go are //go:build verif)",
        "baseline_off_cmd": "cd /repo && for m in $(cat /w/out/gomods.txt); do MF=$(cd /repo/$m && . /w/out/goenv.sh && gomodflag); (cd /repo/$m && go test $MF -json -vet=off -count=1 -timeout 25m ./...); done",
        "source_commits": [l.strip() for l in os.popen("git -C /repo log --format=%H --grep '^verif:' ").read().split()],
        "add_only": True,
    },
    "engines": [{"name": "govc", "path": "/verif/govc", "serves_properties": [c["property_id"] for c in checks],
                 "kind_free_text": "deductive program verifier for Go written for this task: contracts as //@ comments + Go spec functions in build-tagged files, VC generation over go/ssa built from /repo's working tree on every run, obligations discharged by racing z3 4.8.12, z3-new 5.1.0, cvc5 1.0.3; counterexamples replayed on the real code with go test -overlay"}],
    "checks": checks,
    "not_applicable": na,
    "notes": "Exit codes of ./check: 0 all obligations discharged; 1 VIOLATION (a named obligation failed; replay file attached); 2 the check could not run (contract names a function that no longer exists, contract does not type-check, repo does not build). known_findings.json lists genuine defects recorded or fixed.",
}
json.dump(man, open(os.path.join(here, "MANIFEST.json"), "w"), indent=1)
print(f"{len(checks)} checks, {len(na)} not applicable")
